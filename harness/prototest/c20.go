//go:build verif

package prototest

// C20 (first half) — ParseAnnotatedHex returns exactly the bytes denoted by the hex digits outside comments,
// for every placement of whitespace, line breaks and ';' comments, and rejects anything else.
//
// Input: a string of concrete length n <= N (case split) whose bytes are symbolic ASCII. strings.Split /
// Index / Map are modelled by case-splitting on the positions of '\n' and ';' and on which bytes the mapping
// closure (executed symbolically, it calls unicode.IsSpace) drops; encoding/hex runs from its own SSA.
// Oracle: a direct state machine over the same bytes (comment state, whitespace skip, digit pairing within a
// line - a byte split across a line break is "anything else", as the function's doc comment specifies).

func c20N() int {
	if verifTier() == 1 {
		return 5
	}
	return 4
}

func c20IsSpace(c byte) bool {
	return c == ' ' || c == '\t' || c == '\n' || c == '\v' || c == '\f' || c == '\r'
}

func c20Hex(c byte) (byte, bool) {
	switch {
	case c >= '0' && c <= '9':
		return c - '0', true
	case c >= 'a' && c <= 'f':
		return c - 'a' + 10, true
	case c >= 'A' && c <= 'F':
		return c - 'A' + 10, true
	}
	return 0, false
}

// c20Oracle: (bytes, ok)
func c20Oracle(x []byte) ([]byte, bool) {
	var out []byte
	comment := false
	have := false
	var hi byte
	for _, c := range x {
		if c == '\n' {
			if have {
				return nil, false // odd number of digits on a line
			}
			comment = false
			continue
		}
		if comment {
			continue
		}
		if c == ';' {
			comment = true
			continue
		}
		if c20IsSpace(c) {
			continue
		}
		v, ok := c20Hex(c)
		if !ok {
			return nil, false
		}
		if have {
			out = append(out, hi<<4|v)
			have = false
		} else {
			hi, have = v, true
		}
	}
	if have {
		return nil, false
	}
	return out, true
}

func H_C20_Hex() {
	b := nondetBytes("x", c20N())
	n := verifConcretize(len(b))
	b = b[:n]
	for i := 0; i < n; i++ {
		verifAssume(b[i] < 0x80) // ASCII input (stated bound)
	}
	got, err := ParseAnnotatedHex(string(b))
	want, ok := c20Oracle(b)
	verifAssert((err == nil) == ok, "text containing anything but hex digit pairs, whitespace and ';' comments is rejected, everything else accepted")
	if err == nil && ok {
		verifAssertBytesEq(got, want, "the result is exactly the bytes denoted by the hex digits outside comments")
	}
	verifReach("end")
}
