//go:build verif

package csproto

import (
	"errors"
	"reflect"

	"github.com/gogo/protobuf/gogoproto"
	gogoproto2 "github.com/gogo/protobuf/proto"
	gogotest "github.com/gogo/protobuf/proto/test_proto"
	gogodesc "github.com/gogo/protobuf/protoc-gen-gogo/descriptor"
	"google.golang.org/protobuf/proto"
	"google.golang.org/protobuf/reflect/protodesc"
	"google.golang.org/protobuf/reflect/protoreflect"
	"google.golang.org/protobuf/reflect/protoregistry"
	"google.golang.org/protobuf/types/descriptorpb"
	"google.golang.org/protobuf/types/dynamicpb"
	"google.golang.org/protobuf/types/gofeaturespb"
)

// c12DynExts (native mode only): scalar / string / bool / bytes / enum-free extensions of the real v2 message
// descriptorpb.FeatureSet, built at run time (numbers from its "internal testing" range)
func c12DynExts() []protoreflect.ExtensionType {
	opt := descriptorpb.FieldDescriptorProto_LABEL_OPTIONAL.Enum()
	mk := func(name string, num int32, t descriptorpb.FieldDescriptorProto_Type) *descriptorpb.FieldDescriptorProto {
		return &descriptorpb.FieldDescriptorProto{Name: proto.String(name), Number: proto.Int32(num), Type: t.Enum(), Label: opt, Extendee: proto.String(".google.protobuf.FeatureSet")}
	}
	fd := &descriptorpb.FileDescriptorProto{
		Name: proto.String("c12dyn.proto"), Package: proto.String("c12dyn"), Syntax: proto.String("proto2"),
		Dependency: []string{"google/protobuf/descriptor.proto"},
		Extension: []*descriptorpb.FieldDescriptorProto{
			mk("dyn_i", 9995, descriptorpb.FieldDescriptorProto_TYPE_INT32), mk("dyn_s", 9996, descriptorpb.FieldDescriptorProto_TYPE_STRING),
			mk("dyn_b", 9997, descriptorpb.FieldDescriptorProto_TYPE_BOOL), mk("dyn_y", 9998, descriptorpb.FieldDescriptorProto_TYPE_BYTES),
		},
	}
	f, err := protodesc.NewFile(fd, protoregistry.GlobalFiles)
	if err != nil {
		panic(err)
	}
	var out []protoreflect.ExtensionType
	for i := 0; i < f.Extensions().Len(); i++ {
		out = append(out, dynamicpb.NewExtensionType(f.Extensions().Get(i)))
	}
	return out
}

// c12NativeRange: RangeExtensions visits exactly the extensions that are set - the same sequence of field numbers
// as the owning (v2) runtime's own Range - for every subset of four extensions, and returns at once, with the
// callback's error, when the callback fails at its k-th call
func c12NativeRange() {
	exts := c12DynExts()
	vals := []interface{}{int32(7), "x", true, []byte{1}}
	for mask := 0; mask < 16; mask++ {
		m := &descriptorpb.FeatureSet{}
		n := 0
		for i, x := range exts {
			if mask&(1<<i) != 0 {
				verifAssert(SetExtension(m, x, vals[i]) == nil, "native: SetExtension of a scalar extension succeeds")
				n++
			}
		}
		want := map[int32]bool{}
		proto.RangeExtensions(m, func(t protoreflect.ExtensionType, v interface{}) bool {
			want[int32(t.TypeDescriptor().Number())] = true
			return true
		})
		got := map[int32]bool{}
		calls := 0
		err := RangeExtensions(m, func(value interface{}, name string, field int32) error {
			calls++
			got[field] = true
			return nil
		})
		verifAssert3(err == nil, calls == n, reflect.DeepEqual(got, want), "native: RangeExtensions visits exactly the extensions that are set, each once")
		for k := 1; k <= n; k++ {
			calls = 0
			err = RangeExtensions(m, func(value interface{}, name string, field int32) error {
				calls++
				if calls == k {
					return errC12Stop
				}
				return nil
			})
			verifAssert2(err == errC12Stop, calls == k, "native: RangeExtensions returns immediately with the callback's error")
		}
	}
}

var errC12Stop = errors.New("c12: stop")

// c12NativeScalars: explicit presence - a scalar extension set to its zero value is set, and reads back as that value
func c12NativeScalars() {
	exts := c12DynExts()
	vals := [][]interface{}{{int32(0), int32(7)}, {"", "x"}, {false, true}, {[]byte{}, []byte{1}}}
	for i, x := range exts {
		for _, v := range vals[i] {
			m := &descriptorpb.FeatureSet{}
			verifAssert(SetExtension(m, x, v) == nil, "native: SetExtension of a scalar extension succeeds")
			verifAssert(HasExtension(m, x), "native: after SetExtension (zero values included) HasExtension is true")
			got, err := GetExtension(m, x)
			verifAssert2(err == nil, got != nil && reflect.DeepEqual(got, v), "native: GetExtension returns the value set (zero values included)")
			want, _ := proto.Marshal(m)
			have, merr := Marshal(m)
			verifAssert2(merr == nil, string(have) == string(want), "native: the set extension appears in the marshaled bytes")
			ClearExtension(m, x)
			verifAssert(!HasExtension(m, x), "native: after ClearExtension HasExtension is false")
		}
	}
}

// C12 — extension accessors (level: other; dispatch + contract stubs).
//
// Message candidates: a real v2 extendable message (descriptorpb.FeatureSet), a real gogo extendable message
// (gogo's descriptor.FieldOptions), a legacy v1-style message, a non-message pointer, nil.
// Descriptor candidates: a real v2 ExtensionType (gofeaturespb.E_Go, which is also golang/protobuf's
// *ExtensionDesc), a real *gogo.ExtensionDesc (gogoproto.E_Nullable), a value of another type, nil.
// Symbolically the runtimes' extension APIs are logged contract stubs: the obligations are that the owning
// runtime's function - and only that - is invoked for a matching pair, and that a mismatching pair yields
// false / an error / the documented panic WITHOUT any runtime call (so the message cannot have been modified).
// On every native replay (counterexamples and path witnesses) the real runtimes run and the coherence laws
// (Set => Has and Get; Clear/ClearAll => !Has; Range visits exactly the set ones; declared number) are
// asserted on real messages.

const (
	c12MsgV2 = iota
	c12MsgGogo
	c12MsgLegacy
	c12MsgNonMsg
	c12MsgNil
	c12MsgGogoDefaults // a gogo message whose extensions declare proto2 defaults
	c12MsgCount
)

const (
	c12ExtV2 = iota
	c12ExtGogo
	c12ExtOther
	c12ExtNil
	c12ExtGogoDefault // a gogo extension of c12MsgGogoDefaults with [default = 42]
	c12ExtCount
)

func c12Pick() (interface{}, int, interface{}, int) {
	mk := nondetInt("msg")
	verifAssume(mk >= 0)
	verifAssume(mk < c12MsgCount)
	mk = verifConcretize(mk)
	xk := nondetInt("ext")
	verifAssume(xk >= 0)
	verifAssume(xk < c12ExtCount)
	xk = verifConcretize(xk)
	var m, x interface{}
	switch mk {
	case c12MsgV2:
		m = &descriptorpb.FeatureSet{}
	case c12MsgGogo:
		m = &gogodesc.FieldOptions{}
	case c12MsgLegacy:
		m = &c11Legacy{c: &c11Counters{}}
	case c12MsgNonMsg:
		m = &c03Opaque{}
	case c12MsgGogoDefaults:
		m = &gogotest.DefaultsMessage{}
	}
	switch xk {
	case c12ExtV2:
		x = gofeaturespb.E_Go
	case c12ExtGogo:
		x = gogoproto.E_Nullable
	case c12ExtOther:
		x = "not a descriptor"
	case c12ExtGogoDefault:
		if verifNative() {
			x = gogotest.E_DefaultInt32
		} else {
			// test_proto's package initialiser is not executed by the engine: the same descriptor, spelled out
			x = &gogoproto2.ExtensionDesc{ExtendedType: (*gogotest.DefaultsMessage)(nil), ExtensionType: (*int32)(nil), Field: 203,
				Name: "test_proto.default_int32", Tag: "varint,203,opt,name=default_int32,def=42", Filename: "test.proto"}
		}
	}
	return m, mk, x, xk
}

// matching: the descriptor belongs to the message's runtime (golang v1's ExtensionDesc is the v2 type). Whether the
// descriptor extends THIS message type is the runtime's business (c12Extendee), not csproto's.
func c12Match(mk, xk int) bool {
	return (mk == c12MsgV2 && xk == c12ExtV2) || (c12IsGogo(mk) && (xk == c12ExtGogo || xk == c12ExtGogoDefault)) || (mk == c12MsgLegacy && xk == c12ExtV2)
}

func c12IsGogo(mk int) bool { return mk == c12MsgGogo || mk == c12MsgGogoDefaults }

// the descriptor extends the message's type
func c12Extendee(mk, xk int) bool {
	return (mk == c12MsgV2 && xk == c12ExtV2) || (mk == c12MsgGogo && xk == c12ExtGogo) || (mk == c12MsgGogoDefaults && xk == c12ExtGogoDefault)
}

// native mode, gogo pairs: csproto's answer is the owning runtime's answer - value, error and error text
func c12NativeGogoGet(m, x, v interface{}, err error) {
	rv, rerr := gogoproto2.GetExtension(m.(gogoproto2.Message), x.(*gogoproto2.ExtensionDesc))
	verifAssert2((err == nil) == (rerr == nil), reflect.DeepEqual(v, rv), "native: GetExtension returns what the owning (gogo) runtime returns, declared defaults of unset extensions included")
	if err != nil && rerr != nil {
		verifAssert(err.Error() == rerr.Error(), "native: and the runtime's own error")
	}
}

func c12AnyRuntimeCall() bool {
	return verifCalledPrefix("google.golang.org/protobuf/proto.") || verifCalledPrefix("github.com/gogo/protobuf/proto.") || verifCalledPrefix("github.com/golang/protobuf/proto.")
}

func H_C12_Has() {
	m, mk, x, xk := c12Pick()
	has := HasExtension(m, x)
	if !c12Match(mk, xk) {
		verifAssert(!has, "a descriptor of another runtime (or no descriptor) yields false")
		if !verifNative() {
			verifAssert(!c12AnyRuntimeCall(), "and no runtime function is invoked")
		}
	} else if !verifNative() {
		switch mk {
		case c12MsgV2:
			verifAssert(verifCalled("google.golang.org/protobuf/proto.HasExtension"), "the v2 runtime answers for a v2 message")
		case c12MsgGogo, c12MsgGogoDefaults:
			verifAssert(verifCalled("github.com/gogo/protobuf/proto.HasExtension"), "the gogo runtime answers for a gogo message")
		case c12MsgLegacy:
			verifAssert(verifCalled("github.com/golang/protobuf/proto.HasExtension"), "the v1 runtime answers for a v1 message")
		}
	} else {
		verifAssert(!has, "native: a fresh message has no extension set")
	}
	verifReach("end")
}

func H_C12_Get() {
	m, mk, x, xk := c12Pick()
	v, err := GetExtension(m, x)
	if !c12Match(mk, xk) {
		verifAssert2(err != nil, v == nil, "a mismatching pair yields an error and no value")
		if !verifNative() {
			verifAssert(!c12AnyRuntimeCall(), "and no runtime function is invoked")
		}
	} else if !verifNative() {
		switch mk {
		case c12MsgV2:
			verifAssert(verifCalled("google.golang.org/protobuf/proto.GetExtension"), "v2 GetExtension")
		case c12MsgGogo, c12MsgGogoDefaults:
			verifAssert(verifCalled("github.com/gogo/protobuf/proto.GetExtension"), "gogo GetExtension")
		case c12MsgLegacy:
			verifAssert(verifCalled("github.com/golang/protobuf/proto.GetExtension"), "v1 GetExtension")
		}
	} else if c12IsGogo(mk) {
		c12NativeGogoGet(m, x, v, err)
	} else if mk == c12MsgV2 {
		rv := proto.GetExtension(m.(proto.Message), x.(protoreflect.ExtensionType))
		verifAssert2(err == nil, reflect.DeepEqual(v, rv), "native: GetExtension returns what the owning (v2) runtime returns")
	}
	verifReach("end")
}

func H_C12_Set() {
	m, mk, x, xk := c12Pick()
	var val interface{}
	switch xk {
	case c12ExtV2:
		val = &gofeaturespb.GoFeatures{}
	case c12ExtGogoDefault:
		i := int32(5)
		val = &i
	default:
		b := true
		val = &b
	}
	err := SetExtension(m, x, val)
	if !c12Match(mk, xk) {
		verifAssert(err != nil, "a mismatching pair yields an error")
		if !verifNative() {
			verifAssert(!c12AnyRuntimeCall(), "and the message is not touched (no runtime function is invoked)")
		}
	} else if !verifNative() {
		switch mk {
		case c12MsgV2:
			verifAssert(verifCalled("google.golang.org/protobuf/proto.SetExtension"), "v2 SetExtension")
		case c12MsgGogo, c12MsgGogoDefaults:
			verifAssert(verifCalled("github.com/gogo/protobuf/proto.SetExtension"), "gogo SetExtension")
		case c12MsgLegacy:
			verifAssert(verifCalled("github.com/golang/protobuf/proto.SetExtension"), "v1 SetExtension")
		}
	} else if !c12Extendee(mk, xk) {
		if mk != c12MsgLegacy {
			verifAssert(err != nil, "native: the runtime rejects an extension declared for another message")
		}
	} else if mk != c12MsgLegacy {
		if mk == c12MsgV2 {
			c12NativeScalars()
			c12NativeRange()
		}
		// the real runtimes: coherence laws on a real message
		verifAssert(err == nil, "native: SetExtension succeeds on a matching pair")
		verifAssert(HasExtension(m, x), "native: after SetExtension, HasExtension is true")
		got, gerr := GetExtension(m, x)
		verifAssert2(gerr == nil, got != nil, "native: after SetExtension, GetExtension returns a value")
		n := 0
		rerr := RangeExtensions(m, func(value interface{}, name string, field int32) error {
			n++
			num, _ := ExtensionFieldNumber(x)
			verifAssert(int(field) == num, "native: RangeExtensions reports the declared field number")
			return nil
		})
		verifAssert2(rerr == nil, n == 1, "native: RangeExtensions visits exactly the set extension")
		ClearExtension(m, x)
		verifAssert(!HasExtension(m, x), "native: after ClearExtension, HasExtension is false")
		verifAssert(SetExtension(m, x, val) == nil, "native: set again")
		ClearAllExtensions(m)
		verifAssert(!HasExtension(m, x), "native: after ClearAllExtensions, HasExtension is false")
		b, merr := Marshal(m)
		verifAssert2(merr == nil, len(b) == 0, "native: a cleared extension no longer appears in the marshaled bytes")
	}
	verifReach("end")
}

// ClearExtension signals a mismatching pair by its documented panic; matching pairs reach the runtime
func H_C12_Clear() {
	m, mk, x, xk := c12Pick()
	verifAssume(c12Match(mk, xk))
	ClearExtension(m, x)
	if !verifNative() {
		switch mk {
		case c12MsgV2:
			verifAssert(verifCalled("google.golang.org/protobuf/proto.ClearExtension"), "v2 ClearExtension")
		case c12MsgGogo, c12MsgGogoDefaults:
			verifAssert(verifCalled("github.com/gogo/protobuf/proto.ClearExtension"), "gogo ClearExtension")
		case c12MsgLegacy:
			verifAssert(verifCalled("github.com/golang/protobuf/proto.ClearExtension"), "v1 ClearExtension")
		}
	}
	verifReach("end")
}

func H_C12_ClearAll_Range() {
	m, mk, _, _ := c12Pick()
	ClearAllExtensions(m) // unsupported values: no-op, no panic
	err := RangeExtensions(m, func(value interface{}, name string, field int32) error { return nil })
	if mk == c12MsgNonMsg || mk == c12MsgNil {
		verifAssert(err != nil, "RangeExtensions on an unsupported value is an error, not a panic")
	}
	if !verifNative() {
		switch mk {
		case c12MsgGogo, c12MsgGogoDefaults:
			verifAssert2(verifCalled("github.com/gogo/protobuf/proto.ClearAllExtensions"), verifCalled("github.com/gogo/protobuf/proto.ExtensionDescs"), "gogo runtime")
		case c12MsgLegacy:
			verifAssert2(verifCalled("github.com/golang/protobuf/proto.ClearAllExtensions"), verifCalled("github.com/golang/protobuf/proto.ExtensionDescs"), "v1 runtime")
		case c12MsgV2:
			verifAssert(verifCalled("google.golang.org/protobuf/proto.RangeExtensions"), "v2 runtime")
		default:
			verifAssert(!c12AnyRuntimeCall(), "no runtime call for unsupported values")
		}
	}
	verifReach("end")
}

func H_C12_FieldNumber() {
	_, _, x, xk := c12Pick()
	n, err := ExtensionFieldNumber(x)
	switch xk {
	case c12ExtV2:
		if verifNative() {
			verifAssert2(err == nil, n == 1002, "native: declared number of pb.go")
		} else {
			verifAssert(err == nil, "a v2 / v1 descriptor has a number")
		}
	case c12ExtGogo:
		verifAssert2(err == nil, n == 65001, "declared number of gogoproto.nullable")
	case c12ExtGogoDefault:
		verifAssert2(err == nil, n == 203, "declared number of test_proto.default_int32")
	default:
		verifAssert2(err != nil, n == 0, "anything else is an error")
	}
	verifReach("end")
}
