//go:build verif

package csproto

import (
	"errors"

	"google.golang.org/protobuf/encoding/protowire"
)

// C19 — nested-message bridging in the hand-written codec.
//
// Harness message types marshal a symbolic payload (symbolic length <= Pmax, symbolic bytes) or fail with a
// symbolic verdict; one type per bridging tier of EncodeNested / csproto.Marshal / csproto.Size:
//   c19To    Size + MarshalTo (+ Marshal)      -> MarshalerTo branch
//   c19M     Size + Marshal                    -> Marshaler branch
//   c19V1    XXX_Size + XXX_Marshal            -> default branch through csproto.Marshal, v1 tier
// Messages only known to the Google v2 runtime would go through proto.Size/proto.Marshal, which are the
// runtime's code (contract stubs only) - outside this check, see DESIGN.md.
// The write cursor is observed through the exported API: P raw bytes are written before the nested field and
// a sentinel after it, into a buffer of exactly the predicted size with symbolic initial contents.

var errC19 = errors.New("nested marshal failed")

type c19To struct {
	payload []byte
	fail    bool
	calls   int
}

func (m *c19To) Size() int { return len(m.payload) }
func (m *c19To) MarshalTo(dest []byte) error {
	m.calls++
	if m.fail {
		return errC19
	}
	copy(dest, m.payload)
	return nil
}
func (m *c19To) Marshal() ([]byte, error) {
	if m.fail {
		return nil, errC19
	}
	out := make([]byte, len(m.payload))
	copy(out, m.payload)
	return out, nil
}

type c19M struct {
	payload []byte
	fail    bool
}

func (m *c19M) Size() int { return len(m.payload) }
func (m *c19M) Marshal() ([]byte, error) {
	if m.fail {
		return nil, errC19
	}
	out := make([]byte, len(m.payload))
	copy(out, m.payload)
	return out, nil
}

type c19V1 struct {
	payload []byte
	fail    bool
}

func (m *c19V1) XXX_Size() int { return len(m.payload) }
func (m *c19V1) XXX_Marshal(b []byte, deterministic bool) ([]byte, error) {
	if m.fail {
		return nil, errC19
	}
	return append(b, m.payload...), nil
}

func c19Pmax() int {
	if verifTier() == 1 {
		return 200
	}
	return 12
}

func c19Enc(flavour int) {
	tag := c01Tag()
	payload := nondetBytes("payload", 16386)
	// every length up to Pmax, plus the lengths around the 1->2 and 2->3 byte length-prefix boundaries
	verifAssume(len(payload) <= c19Pmax() || (len(payload) >= 126 && len(payload) <= 130) || len(payload) >= 16382)
	n := verifConcretize(len(payload))
	payload = payload[:n]
	fail := nondetBool("fail")
	P := nondetInt("P")
	verifAssume(P == 0 || P == 3)
	P = verifConcretize(P)
	pre := nondetBytesLen("pre", P)
	var m interface{}
	switch flavour {
	case 0:
		m = &c19To{payload: payload, fail: fail}
	case 1:
		m = &c19M{payload: payload, fail: fail}
	default:
		m = &c19V1{payload: payload, fail: fail}
	}
	// what csproto.Marshal returns for this message is the reference for the bytes
	ref, rerr := Marshal(m)
	verifAssert((rerr != nil) == fail, "csproto.Marshal reports the message's own verdict")
	verifAssert(Size(m) == n, "csproto.Size is the message's size")
	klen := verifConcretize(SizeOfTagKey(tag))
	llen := verifConcretize(SizeOfVarint(uint64(n)))
	buf := nondetBytesLen("buf", P+klen+llen+n+1)
	e := NewEncoder(buf)
	e.EncodeRaw(pre)
	err := e.EncodeNested(tag, m)
	if fail {
		verifAssert(errors.Is(err, errC19), "the nested message's error is returned to the caller (possibly wrapped)")
		verifReach("end")
		return
	}
	verifAssert(err == nil, "encoding a marshalable message succeeds")
	e.EncodeRaw([]byte{0xA5})
	want := make([]byte, 0, 16500)
	want = append(want, pre...)
	want = protowire.AppendTag(want, protowire.Number(tag), protowire.BytesType)
	want = protowire.AppendVarint(want, uint64(len(ref)))
	want = append(want, ref...)
	want = append(want, 0xA5)
	verifAssertBytesEq(buf, want, "bytes written are key, length and exactly csproto.Marshal's bytes; the cursor advanced by precisely that")
	// decode it back
	d := c01Decoder(buf)
	_, serr := d.Seek(int64(P), 0)
	verifAssert(serr == nil, "seek")
	t, wt, derr := d.DecodeTag()
	verifAssert3(derr == nil, t == tag, wt == WireTypeLengthDelimited, "key")
	u := &c03Unmarshaler{}
	derr = d.DecodeNested(u)
	verifAssert3(derr == nil, u.calls == 1, d.Offset() == len(buf)-1, "decoding consumes exactly the declared length")
	verifAssertBytesEq(u.got, payload, "the nested decoder receives the message's bytes")
	verifReach("end")
}

func H_C19_Enc_MarshalerTo() { c19Enc(0) }
func H_C19_Enc_Marshaler()   { c19Enc(1) }
func H_C19_Enc_V1()          { c19Enc(2) }

// a message no tier supports: Size is 0 and Marshal fails; the error must surface
func H_C19_Enc_Unsupported() {
	tag := c01Tag()
	klen := verifConcretize(SizeOfTagKey(tag))
	buf := nondetBytesLen("buf", klen+1)
	e := NewEncoder(buf)
	err := e.EncodeNested(tag, &c03Opaque{})
	verifAssert(errors.Is(err, ErrMarshaler), "an unsupported nested message is reported with the documented error")
	verifReach("end")
}

// decoding: a declared length beyond the buffer is rejected without invoking the nested decoder, and the
// nested decoder's error propagates (arbitrary bytes, arbitrary cursor)
func H_C19_Dec() {
	s := c03Pre(c03Lmax(24, 40))
	u := &c03Unmarshaler{fail: nondetBool("fail")}
	err := s.d.DecodeNested(u)
	want := c03BytesLen(s)
	if want == c03Truncated {
		verifAssert2(err != nil, u.calls == 0, "a declared length beyond the buffer is rejected without invoking the nested decoder")
	} else if want >= 0 {
		verifAssert2(u.calls == 1, len(u.got) == want-c03VarintLen(s), "the nested decoder sees exactly the declared length")
		if u.fail {
			verifAssert2(errors.Is(err, errC03Nested), s.d.Offset() == s.off, "an error from the nested message propagates; the cursor stays")
		} else {
			verifAssert2(err == nil, s.d.Offset() == s.off+want, "decoding consumes exactly the declared length")
		}
	}
	verifReach("end")
}
