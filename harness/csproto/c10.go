//go:build verif

package csproto

// C10 (hand-written decoder part) — in safe mode DecodeString and DecodeBytes never hand out memory of the
// caller's buffer. Inductive form as in C03: arbitrary buffer, arbitrary cursor; the mode is symbolic and the
// obligation is conditional on safe mode. Arbitrary bytes include over-long (non-minimal) length prefixes and
// lengths on both sides of the 1-byte / 2-byte prefix boundary.

func c10Lmax() int {
	if verifTier() == 1 {
		return 300
	}
	return 160
}

func H_C10_DecodeString() {
	s := c03Pre(c10Lmax())
	str, err := s.d.DecodeString()
	if err == nil && s.d.Mode() == DecoderModeSafe {
		verifAssert(verifNoAliasString(str, s.p), "safe mode: the decoded string does not share memory with the input buffer")
	}
	verifReach("end")
}

func H_C10_DecodeBytes() {
	s := c03Pre(c10Lmax())
	b, err := s.d.DecodeBytes()
	if err == nil && s.d.Mode() == DecoderModeSafe {
		verifAssert(verifNoAliasBytes(b, s.p), "safe mode: the decoded bytes do not share memory with the input buffer")
	}
	verifReach("end")
}
