//go:build verif

package csproto

import (
	"encoding/json"
	"errors"
	"strings"

	gogodesc "github.com/gogo/protobuf/protoc-gen-gogo/descriptor"
	"google.golang.org/protobuf/encoding/protojson"
	"google.golang.org/protobuf/proto"
	"google.golang.org/protobuf/types/descriptorpb"
)

// C18 — JSON adapters (level: other; dispatch and option wiring, JSON codecs are contract stubs).
//
// Symbolic side: the message ranges over candidates (nil interface, typed nil pointer, real v2 message, real
// gogo message, legacy v1-style message, a type with its own MarshalJSON/UnmarshalJSON, a non-message pointer),
// the five options are symbolic (each may also be left at its default). Obligations: nil => (nil, nil) resp. an
// error; a json.Marshaler/Unmarshaler is called directly; otherwise a runtime's JSON codec is invoked with exactly
// Indent / UseEnumNumbers|EnumsAsInts / EmitUnpopulated|EmitDefaults resp. DiscardUnknown|AllowUnknownFields /
// AllowPartial equal to the options given - for all 2^5 valuations at once; codec errors are returned wrapped, not
// swallowed; unsupported values are errors. The codecs' own behaviour is their contract.
// Native side (every replayed witness): with the real runtimes the output is well-formed JSON, decodes through the
// adapter and through the owning runtime's decoder to an equal message, and each option has its visible effect.

type c18Own struct {
	marshals, unmarshals int
}

func (m *c18Own) MarshalJSON() ([]byte, error) { m.marshals++; return []byte(`{"own":1}`), nil }
func (m *c18Own) UnmarshalJSON(b []byte) error { m.unmarshals++; return nil }

const (
	c18Nil = iota
	c18TypedNil
	c18V2
	c18Gogo
	c18Legacy
	c18OwnJSON
	c18NonMsg
	c18TypedNilOwn // a typed nil pointer of a type with its own JSON methods
	c18Count
)

type c18Opts struct {
	use                                    bool
	indent                                 bool
	enumNums, zeros, allowUnknown, partial bool
}

func c18Options() (c18Opts, []JSONOption) {
	o := c18Opts{use: nondetBool("use_options")}
	if !o.use {
		return o, nil
	}
	o.indent = nondetBool("indent")
	o.enumNums, o.zeros = nondetBool("enum_numbers"), nondetBool("zero_values")
	o.allowUnknown, o.partial = nondetBool("allow_unknown"), nondetBool("allow_partial")
	ind := ""
	if o.indent {
		ind = "  "
	}
	var opts []JSONOption
	if nondetBool("overridden") {
		// every option first given with the opposite value: an option applies as given, the later one counts
		other := "  "
		if o.indent {
			other = ""
		}
		opts = append(opts, JSONIndent(other), JSONUseEnumNumbers(!o.enumNums), JSONIncludeZeroValues(!o.zeros), JSONAllowUnknownFields(!o.allowUnknown), JSONAllowPartialMessages(!o.partial))
	}
	opts = append(opts, JSONIndent(ind), JSONUseEnumNumbers(o.enumNums), JSONIncludeZeroValues(o.zeros), JSONAllowUnknownFields(o.allowUnknown), JSONAllowPartialMessages(o.partial))
	return o, opts
}

func c18Pick(own *c18Own) (interface{}, int) {
	k := nondetInt("msg")
	verifAssume(k >= 0)
	verifAssume(k < c18Count)
	k = verifConcretize(k)
	switch k {
	case c18Nil:
		return nil, k
	case c18TypedNil:
		return (*descriptorpb.FieldDescriptorProto)(nil), k
	case c18V2:
		return &descriptorpb.FieldDescriptorProto{Name: proto.String("f"), Type: descriptorpb.FieldDescriptorProto_TYPE_INT64.Enum(), Number: proto.Int32(0)}, k
	case c18Gogo:
		n, t, z := "f", gogodesc.FieldDescriptorProto_TYPE_INT64, int32(0)
		return &gogodesc.FieldDescriptorProto{Name: &n, Type: &t, Number: &z}, k
	case c18Legacy:
		return &c11Legacy{c: &c11Counters{}}, k
	case c18OwnJSON:
		return own, k
	case c18TypedNilOwn:
		return (*c18Own)(nil), k
	default:
		return &c03Opaque{}, k
	}
}

func H_C18_Marshal() {
	own := &c18Own{}
	m, k := c18Pick(own)
	o, opts := c18Options()
	b, err := JSONMarshaler(m, opts...).MarshalJSON()
	switch k {
	case c18Nil, c18TypedNil, c18TypedNilOwn:
		verifAssert2(b == nil, err == nil, "a nil message marshals to nothing")
	case c18OwnJSON:
		verifAssert3(own.marshals == 1, err == nil, string(b) == `{"own":1}`, "a json.Marshaler is called directly and its result returned")
	case c18NonMsg:
		verifAssert2(b == nil, err != nil, "an unsupported value is an error, not a panic")
	case c18V2:
		if !verifNative() {
			call := "(google.golang.org/protobuf/encoding/protojson.MarshalOptions).Marshal"
			verifAssert(verifCalled(call), "a v2 message is marshaled by protojson")
			verifAssert3(verifStubBool(call, "UseEnumNumbers") == o.enumNums, verifStubBool(call, "EmitUnpopulated") == o.zeros, verifStubStrLen(call, "Indent") == c18IndentLen(o), "protojson receives exactly the options given")
			verifAssert((err != nil) == verifStubFailed(call), "a codec error is returned (wrapped), not swallowed; success is success")
		} else {
			c18NativeMarshal(m, b, err, o, func() interface{} { return &descriptorpb.FieldDescriptorProto{} })
			var back descriptorpb.FieldDescriptorProto
			verifAssert(protojson.UnmarshalOptions{}.Unmarshal(b, &back) == nil, "native: the owning runtime's own JSON decoder accepts the output")
		}
	case c18Gogo, c18Legacy:
		if !verifNative() {
			v1, gg := "(*github.com/golang/protobuf/jsonpb.Marshaler).Marshal", "(*github.com/gogo/protobuf/jsonpb.Marshaler).Marshal"
			verifAssert(verifCalled(v1) != verifCalled(gg), "a v1/gogo message is marshaled by exactly one jsonpb codec")
			call := v1
			if verifCalled(gg) {
				call = gg
			}
			verifAssert3(verifStubBool(call, "EnumsAsInts") == o.enumNums, verifStubBool(call, "EmitDefaults") == o.zeros, verifStubStrLen(call, "Indent") == c18IndentLen(o), "jsonpb receives exactly the options given")
			verifAssert((err != nil) == verifStubFailed(call), "a codec error is returned (wrapped), not swallowed; success is success")
		} else if k == c18Gogo {
			c18NativeMarshal(m, b, err, o, func() interface{} { return &gogodesc.FieldDescriptorProto{} })
		}
	}
	verifReach("end")
}

func c18IndentLen(o c18Opts) int {
	if o.use && o.indent {
		return 2
	}
	return 0
}

// the visible effect of every marshal option, with the real codecs
func c18NativeMarshal(m interface{}, b []byte, err error, o c18Opts, fresh func() interface{}) {
	verifAssert2(err == nil, json.Valid(b), "native: the output is well-formed JSON")
	s := string(b)
	verifAssert(strings.Contains(s, "\n") == (o.use && o.indent), "native: the indentation string is used iff given")
	verifAssert(strings.Contains(s, "TYPE_INT64") == !(o.use && o.enumNums), "native: enum names unless numbers are requested")
	verifAssert(strings.Contains(s, "jsonName") == (o.use && o.zeros), "native: zero-valued (unpopulated) fields are included iff requested")
	dst := fresh()
	verifAssert(JSONUnmarshaler(dst).UnmarshalJSON(b) == nil, "native: the unmarshaling adapter accepts the output")
	verifAssert(Equal(dst, m), "native: and decodes it to a message equal to the original")
}

func H_C18_Unmarshal() {
	own := &c18Own{}
	m, k := c18Pick(own)
	o, opts := c18Options()
	data := []byte(`{"name":"g","extra_key":1}`)
	err := JSONUnmarshaler(m, opts...).UnmarshalJSON(data)
	switch k {
	case c18Nil, c18TypedNil, c18TypedNilOwn:
		verifAssert(err != nil, "unmarshaling into nil is an error")
	case c18OwnJSON:
		verifAssert2(own.unmarshals == 1, err == nil, "a json.Unmarshaler is called directly")
	case c18NonMsg:
		verifAssert(err != nil, "an unsupported value is an error, not a panic")
	case c18V2:
		if !verifNative() {
			call := "(google.golang.org/protobuf/encoding/protojson.UnmarshalOptions).Unmarshal"
			verifAssert(verifCalled(call), "a v2 message is decoded by protojson")
			verifAssert2(verifStubBool(call, "DiscardUnknown") == o.allowUnknown, verifStubBool(call, "AllowPartial") == o.partial, "protojson receives exactly the options given")
			verifAssert((err != nil) == verifStubFailed(call), "a codec error is returned (wrapped), not swallowed")
		} else {
			verifAssert((err == nil) == (o.use && o.allowUnknown), "native: unknown JSON keys are tolerated iff requested")
			// missing required fields are tolerated iff requested
			part := &descriptorpb.UninterpretedOption_NamePart{}
			perr := JSONUnmarshaler(part, opts...).UnmarshalJSON([]byte(`{}`))
			verifAssert((perr == nil) == (o.use && o.partial), "native: missing required fields are tolerated iff requested")
		}
	case c18Gogo, c18Legacy:
		if !verifNative() {
			v1, gg := "(*github.com/golang/protobuf/jsonpb.Unmarshaler).Unmarshal", "(*github.com/gogo/protobuf/jsonpb.Unmarshaler).Unmarshal"
			verifAssert(verifCalled(v1) != verifCalled(gg), "a v1/gogo message is decoded by exactly one jsonpb codec")
			call := v1
			if verifCalled(gg) {
				call = gg
			}
			verifAssert(verifStubBool(call, "AllowUnknownFields") == o.allowUnknown, "jsonpb receives exactly the option given")
			verifAssert((err != nil) == verifStubFailed(call), "a codec error is returned (wrapped), not swallowed")
		} else if k == c18Gogo {
			verifAssert((err == nil) == (o.use && o.allowUnknown), "native: unknown JSON keys are tolerated iff requested")
		}
	}
	if err != nil && !verifNative() {
		verifAssert(!errors.Is(err, ErrMarshaler), "JSON errors are JSON errors")
	}
	verifReach("end")
}
