//go:build verif

package csproto

import (
	"math"

	"google.golang.org/protobuf/encoding/protowire"
)

// C02 — conformance with the canonical wire format.
//
// Reference: google.golang.org/protobuf/encoding/protowire, executed symbolically from its own SSA by the
// same engine (it is ordinary integer/slice code and is not stubbed).
//   Enc_*   csproto's bytes == reference bytes, for every field number, value and kind
//   Dec_*   reference-encoded bytes decode through csproto to the value the reference decodes
//   Packed* same for packed runs
//   Skip_*  DecodeTag+Skip over k reference-encoded fields returns each field's exact raw encoding

func c02RefBuf() []byte { return make([]byte, 0, 64) }

func c02RefKey(tag int, typ protowire.Type) []byte {
	return protowire.AppendTag(c02RefBuf(), protowire.Number(tag), typ)
}

// ---- (a) encoder output equals the reference bytes ----

func H_C02_Enc_Bool() {
	tag := c01Tag()
	v := nondetBool("v")
	klen := verifConcretize(SizeOfTagKey(tag))
	buf := nondetBytesLen("buf", klen+1)
	NewEncoder(buf).EncodeBool(tag, v)
	ref := protowire.AppendVarint(c02RefKey(tag, protowire.VarintType), protowire.EncodeBool(v))
	verifAssertBytesEq(buf, ref, "encoder bytes equal the reference encoding")
	verifReach("end")
}

func H_C02_Enc_UInt32() {
	tag := c01Tag()
	v := nondetU32("v")
	klen := verifConcretize(SizeOfTagKey(tag))
	vlen := verifConcretize(SizeOfVarint(uint64(v)))
	buf := nondetBytesLen("buf", klen+vlen)
	NewEncoder(buf).EncodeUInt32(tag, v)
	ref := protowire.AppendVarint(c02RefKey(tag, protowire.VarintType), uint64(v))
	verifAssertBytesEq(buf, ref, "encoder bytes equal the reference encoding")
	verifReach("end")
}

func H_C02_Enc_UInt64() {
	tag := c01Tag()
	v := nondetU64("v")
	klen := verifConcretize(SizeOfTagKey(tag))
	vlen := verifConcretize(SizeOfVarint(v))
	buf := nondetBytesLen("buf", klen+vlen)
	NewEncoder(buf).EncodeUInt64(tag, v)
	ref := protowire.AppendVarint(c02RefKey(tag, protowire.VarintType), v)
	verifAssertBytesEq(buf, ref, "encoder bytes equal the reference encoding")
	verifReach("end")
}

// int32/enum: the canonical encoding of a negative value is the 10-byte sign-extended varint
func H_C02_Enc_Int32() {
	tag := c01Tag()
	v := nondetI32("v")
	klen := verifConcretize(SizeOfTagKey(tag))
	vlen := verifConcretize(SizeOfVarint(uint64(v)))
	buf := nondetBytesLen("buf", klen+vlen)
	NewEncoder(buf).EncodeInt32(tag, v)
	ref := protowire.AppendVarint(c02RefKey(tag, protowire.VarintType), uint64(int64(v)))
	verifAssertBytesEq(buf, ref, "encoder bytes equal the reference encoding")
	verifReach("end")
}

func H_C02_Enc_Int64() {
	tag := c01Tag()
	v := nondetI64("v")
	klen := verifConcretize(SizeOfTagKey(tag))
	vlen := verifConcretize(SizeOfVarint(uint64(v)))
	buf := nondetBytesLen("buf", klen+vlen)
	NewEncoder(buf).EncodeInt64(tag, v)
	ref := protowire.AppendVarint(c02RefKey(tag, protowire.VarintType), uint64(v))
	verifAssertBytesEq(buf, ref, "encoder bytes equal the reference encoding")
	verifReach("end")
}

func H_C02_Enc_SInt32() {
	tag := c01Tag()
	v := nondetI32("v")
	klen := verifConcretize(SizeOfTagKey(tag))
	vlen := verifConcretize(SizeOfZigZag(uint64(v)))
	buf := nondetBytesLen("buf", klen+vlen)
	NewEncoder(buf).EncodeSInt32(tag, v)
	// two references: protowire's zig-zag and the spec formula (n << 1) ^ (n >> 31) on 32 bits
	ref := protowire.AppendVarint(c02RefKey(tag, protowire.VarintType), protowire.EncodeZigZag(int64(v)))
	verifAssertBytesEq(buf, ref, "encoder bytes equal the reference encoding")
	spec := uint64(uint32(v<<1) ^ uint32(v>>31))
	verifAssert(spec == protowire.EncodeZigZag(int64(v)), "reference zig-zag equals the spec formula")
	verifReach("end")
}

func H_C02_Enc_SInt64() {
	tag := c01Tag()
	v := nondetI64("v")
	klen := verifConcretize(SizeOfTagKey(tag))
	vlen := verifConcretize(SizeOfZigZag(uint64(v)))
	buf := nondetBytesLen("buf", klen+vlen)
	NewEncoder(buf).EncodeSInt64(tag, v)
	ref := protowire.AppendVarint(c02RefKey(tag, protowire.VarintType), protowire.EncodeZigZag(v))
	verifAssertBytesEq(buf, ref, "encoder bytes equal the reference encoding")
	spec := uint64(v<<1) ^ uint64(v>>63)
	verifAssert(spec == protowire.EncodeZigZag(v), "reference zig-zag equals the spec formula")
	verifReach("end")
}

func H_C02_Enc_Fixed32() {
	tag := c01Tag()
	v := nondetU32("v")
	klen := verifConcretize(SizeOfTagKey(tag))
	buf := nondetBytesLen("buf", klen+4)
	NewEncoder(buf).EncodeFixed32(tag, v)
	ref := protowire.AppendFixed32(c02RefKey(tag, protowire.Fixed32Type), v)
	verifAssertBytesEq(buf, ref, "encoder bytes equal the reference encoding")
	verifReach("end")
}

func H_C02_Enc_Fixed64() {
	tag := c01Tag()
	v := nondetU64("v")
	klen := verifConcretize(SizeOfTagKey(tag))
	buf := nondetBytesLen("buf", klen+8)
	NewEncoder(buf).EncodeFixed64(tag, v)
	ref := protowire.AppendFixed64(c02RefKey(tag, protowire.Fixed64Type), v)
	verifAssertBytesEq(buf, ref, "encoder bytes equal the reference encoding")
	verifReach("end")
}

func H_C02_Enc_Float32() {
	tag := c01Tag()
	bits := nondetU32("v")
	klen := verifConcretize(SizeOfTagKey(tag))
	buf := nondetBytesLen("buf", klen+4)
	NewEncoder(buf).EncodeFloat32(tag, math.Float32frombits(bits))
	ref := protowire.AppendFixed32(c02RefKey(tag, protowire.Fixed32Type), bits)
	verifAssertBytesEq(buf, ref, "encoder bytes equal the reference encoding")
	verifReach("end")
}

func H_C02_Enc_Float64() {
	tag := c01Tag()
	bits := nondetU64("v")
	klen := verifConcretize(SizeOfTagKey(tag))
	buf := nondetBytesLen("buf", klen+8)
	NewEncoder(buf).EncodeFloat64(tag, math.Float64frombits(bits))
	ref := protowire.AppendFixed64(c02RefKey(tag, protowire.Fixed64Type), bits)
	verifAssertBytesEq(buf, ref, "encoder bytes equal the reference encoding")
	verifReach("end")
}

func c02PayloadMax() int {
	if verifTier() == 1 {
		return 300
	}
	return 40
}

func H_C02_Enc_Bytes() {
	tag := c01Tag()
	b := nondetBytes("b", c02PayloadMax())
	n := verifConcretize(len(b))
	b = b[:n]
	klen := verifConcretize(SizeOfTagKey(tag))
	llen := verifConcretize(SizeOfVarint(uint64(n)))
	buf := nondetBytesLen("buf", klen+llen+n)
	NewEncoder(buf).EncodeBytes(tag, b)
	ref := protowire.AppendBytes(make([]byte, 0, 400), b)
	key := c02RefKey(tag, protowire.BytesType)
	verifAssertBytesEq(buf[:klen], key, "key bytes equal the reference key")
	verifAssertBytesEq(buf[klen:], ref, "length prefix and payload equal the reference encoding")
	verifReach("end")
}

func H_C02_Enc_String() {
	tag := c01Tag()
	b := nondetBytes("s", c02PayloadMax())
	n := verifConcretize(len(b))
	b = b[:n]
	klen := verifConcretize(SizeOfTagKey(tag))
	llen := verifConcretize(SizeOfVarint(uint64(n)))
	buf := nondetBytesLen("buf", klen+llen+n)
	NewEncoder(buf).EncodeString(tag, string(b))
	ref := protowire.AppendBytes(make([]byte, 0, 400), b)
	key := c02RefKey(tag, protowire.BytesType)
	verifAssertBytesEq(buf[:klen], key, "key bytes equal the reference key")
	verifAssertBytesEq(buf[klen:], ref, "length prefix and payload equal the reference encoding")
	verifReach("end")
}

// ---- (b) reference-encoded fields decode to the reference's value ----

func c02DecodeKey(d *Decoder, tag int, want WireType) {
	t, wt, err := d.DecodeTag()
	verifAssert3(err == nil, t == tag, wt == want, "DecodeTag returns the reference's field number and wire type")
}

func H_C02_Dec_Varint() {
	tag := c01Tag()
	v := nondetU64("v")
	in := protowire.AppendVarint(c02RefKey(tag, protowire.VarintType), v)
	// what the reference reads back from its own bytes
	num, typ, kn := protowire.ConsumeTag(in)
	verifAssert3(kn > 0, int(num) == tag, typ == protowire.VarintType, "reference reads its own key")
	rv, rn := protowire.ConsumeVarint(in[kn:])
	verifAssert2(rn > 0, rv == v, "reference reads its own varint")
	which := nondetInt("kind")
	verifAssume(which >= 0)
	verifAssume(which <= 6)
	d := c01Decoder(in)
	c02DecodeKey(d, tag, WireTypeVarint)
	switch which {
	case 0:
		got, err := d.DecodeUInt64()
		verifAssert3(err == nil, got == rv, d.Offset() == len(in), "uint64 value equals the reference's")
	case 1:
		got, err := d.DecodeInt64()
		verifAssert3(err == nil, got == int64(rv), d.Offset() == len(in), "int64 value equals the reference's")
	case 2:
		got, err := d.DecodeSInt64()
		verifAssert3(err == nil, got == protowire.DecodeZigZag(rv), d.Offset() == len(in), "sint64 value equals the reference's")
	case 3:
		// a conforming writer emits uint32 fields in range only
		verifAssume(rv <= math.MaxUint32)
		got, err := d.DecodeUInt32()
		verifAssert3(err == nil, got == uint32(rv), d.Offset() == len(in), "uint32 value equals the reference's")
	case 4:
		// int32/enum: sign-extended to 64 bits by a conforming writer
		verifAssume(int64(rv) >= math.MinInt32)
		verifAssume(int64(rv) <= math.MaxInt32)
		got, err := d.DecodeInt32()
		verifAssert3(err == nil, got == int32(rv), d.Offset() == len(in), "int32 value equals the reference's")
	case 5:
		verifAssume(rv <= math.MaxUint32)
		got, err := d.DecodeSInt32()
		verifAssert3(err == nil, got == int32(protowire.DecodeZigZag(rv)), d.Offset() == len(in), "sint32 value equals the reference's")
	case 6:
		got, err := d.DecodeBool()
		verifAssert3(err == nil, got == protowire.DecodeBool(rv), d.Offset() == len(in), "bool value equals the reference's")
	}
	verifReach("end")
}

func H_C02_Dec_Fixed() {
	tag := c01Tag()
	v := nondetU64("v")
	which := nondetInt("kind")
	verifAssume(which >= 0)
	verifAssume(which <= 3)
	if which <= 1 {
		in := protowire.AppendFixed32(c02RefKey(tag, protowire.Fixed32Type), uint32(v))
		d := c01Decoder(in)
		c02DecodeKey(d, tag, WireTypeFixed32)
		if which == 0 {
			got, err := d.DecodeFixed32()
			verifAssert3(err == nil, got == uint32(v), d.Offset() == len(in), "fixed32 value equals the reference's")
		} else {
			got, err := d.DecodeFloat32()
			verifAssert3(err == nil, math.Float32bits(got) == uint32(v), d.Offset() == len(in), "float value equals the reference's")
		}
	} else {
		in := protowire.AppendFixed64(c02RefKey(tag, protowire.Fixed64Type), v)
		d := c01Decoder(in)
		c02DecodeKey(d, tag, WireTypeFixed64)
		if which == 2 {
			got, err := d.DecodeFixed64()
			verifAssert3(err == nil, got == v, d.Offset() == len(in), "fixed64 value equals the reference's")
		} else {
			got, err := d.DecodeFloat64()
			verifAssert3(err == nil, math.Float64bits(got) == v, d.Offset() == len(in), "double value equals the reference's")
		}
	}
	verifReach("end")
}

func H_C02_Dec_Bytes() {
	tag := c01Tag()
	b := nondetBytes("b", c02PayloadMax())
	n := verifConcretize(len(b))
	b = b[:n]
	in := protowire.AppendBytes(protowire.AppendTag(make([]byte, 0, 400), protowire.Number(tag), protowire.BytesType), b)
	str := nondetBool("asString")
	d := c01Decoder(in)
	c02DecodeKey(d, tag, WireTypeLengthDelimited)
	if str {
		got, err := d.DecodeString()
		verifAssert3(err == nil, len(got) == n, d.Offset() == len(in), "string length and cursor")
		verifAssertBytesEq([]byte(got), b, "string equals the reference payload")
	} else {
		got, err := d.DecodeBytes()
		verifAssert3(err == nil, len(got) == n, d.Offset() == len(in), "bytes length and cursor")
		verifAssertBytesEq(got, b, "bytes equal the reference payload")
	}
	verifReach("end")
}

// ---- packed runs written by the reference ----

func c02PackedCount() int {
	if verifTier() == 1 {
		return c01PackedRange(1, 3)
	}
	return c01PackedRange(1, 2)
}

func c02Wrap(tag int, payload []byte) []byte {
	return protowire.AppendBytes(protowire.AppendTag(make([]byte, 0, 128), protowire.Number(tag), protowire.BytesType), payload)
}

// the elements of a conforming packed int32 list include negatives as 10-byte varints
func H_C02_PackedRef_Int32() {
	tag := c01Tag()
	n := c02PackedCount()
	vs := make([]int32, n)
	payload := make([]byte, 0, 64)
	for i := range vs {
		vs[i] = nondetI32N("v", i)
		payload = protowire.AppendVarint(payload, uint64(int64(vs[i])))
	}
	in := c02Wrap(tag, payload)
	// csproto writes the same bytes
	buf := nondetBytesLen("buf", len(in))
	NewEncoder(buf).EncodePackedInt32(tag, vs)
	verifAssertBytesEq(buf, in, "encoder bytes equal the reference packed encoding")
	d := c01Decoder(in)
	c02DecodeKey(d, tag, WireTypeLengthDelimited)
	got, err := d.DecodePackedInt32()
	verifAssert3(err == nil, len(got) == n, d.Offset() == len(in), "count and cursor")
	for i := 0; i < n && i < len(got); i++ {
		verifAssert(got[i] == vs[i], "element equals the reference's")
	}
	verifReach("end")
}

func H_C02_PackedRef_Int64() {
	tag := c01Tag()
	n := c01PackedRange(1, 1+verifTier())
	vs := make([]int64, n)
	payload := make([]byte, 0, 64)
	for i := range vs {
		vs[i] = nondetI64N("v", i)
		payload = protowire.AppendVarint(payload, uint64(vs[i]))
	}
	in := c02Wrap(tag, payload)
	buf := nondetBytesLen("buf", len(in))
	NewEncoder(buf).EncodePackedInt64(tag, vs)
	verifAssertBytesEq(buf, in, "encoder bytes equal the reference packed encoding")
	d := c01Decoder(in)
	c02DecodeKey(d, tag, WireTypeLengthDelimited)
	got, err := d.DecodePackedInt64()
	verifAssert3(err == nil, len(got) == n, d.Offset() == len(in), "count and cursor")
	for i := 0; i < n && i < len(got); i++ {
		verifAssert(got[i] == vs[i], "element equals the reference's")
	}
	verifReach("end")
}

func H_C02_PackedRef_UInt32() {
	tag := c01Tag()
	n := c02PackedCount()
	vs := make([]uint32, n)
	payload := make([]byte, 0, 64)
	for i := range vs {
		vs[i] = nondetU32N("v", i)
		payload = protowire.AppendVarint(payload, uint64(vs[i]))
	}
	in := c02Wrap(tag, payload)
	buf := nondetBytesLen("buf", len(in))
	NewEncoder(buf).EncodePackedUInt32(tag, vs)
	verifAssertBytesEq(buf, in, "encoder bytes equal the reference packed encoding")
	d := c01Decoder(in)
	c02DecodeKey(d, tag, WireTypeLengthDelimited)
	got, err := d.DecodePackedUint32()
	verifAssert3(err == nil, len(got) == n, d.Offset() == len(in), "count and cursor")
	for i := 0; i < n && i < len(got); i++ {
		verifAssert(got[i] == vs[i], "element equals the reference's")
	}
	verifReach("end")
}

func H_C02_PackedRef_UInt64() {
	tag := c01Tag()
	n := c01PackedRange(1, 1+verifTier())
	vs := make([]uint64, n)
	payload := make([]byte, 0, 64)
	for i := range vs {
		vs[i] = nondetU64N("v", i)
		payload = protowire.AppendVarint(payload, vs[i])
	}
	in := c02Wrap(tag, payload)
	buf := nondetBytesLen("buf", len(in))
	NewEncoder(buf).EncodePackedUInt64(tag, vs)
	verifAssertBytesEq(buf, in, "encoder bytes equal the reference packed encoding")
	d := c01Decoder(in)
	c02DecodeKey(d, tag, WireTypeLengthDelimited)
	got, err := d.DecodePackedUint64()
	verifAssert3(err == nil, len(got) == n, d.Offset() == len(in), "count and cursor")
	for i := 0; i < n && i < len(got); i++ {
		verifAssert(got[i] == vs[i], "element equals the reference's")
	}
	verifReach("end")
}

func H_C02_PackedRef_SInt32() {
	tag := c01Tag()
	n := c02PackedCount()
	vs := make([]int32, n)
	payload := make([]byte, 0, 64)
	for i := range vs {
		vs[i] = nondetI32N("v", i)
		payload = protowire.AppendVarint(payload, protowire.EncodeZigZag(int64(vs[i])))
	}
	in := c02Wrap(tag, payload)
	buf := nondetBytesLen("buf", len(in))
	NewEncoder(buf).EncodePackedSInt32(tag, vs)
	verifAssertBytesEq(buf, in, "encoder bytes equal the reference packed encoding")
	d := c01Decoder(in)
	c02DecodeKey(d, tag, WireTypeLengthDelimited)
	got, err := d.DecodePackedSint32()
	verifAssert3(err == nil, len(got) == n, d.Offset() == len(in), "count and cursor")
	for i := 0; i < n && i < len(got); i++ {
		verifAssert(got[i] == vs[i], "element equals the reference's")
	}
	verifReach("end")
}

func H_C02_PackedRef_SInt64() {
	tag := c01Tag()
	n := c01PackedRange(1, 1+verifTier())
	vs := make([]int64, n)
	payload := make([]byte, 0, 64)
	for i := range vs {
		vs[i] = nondetI64N("v", i)
		payload = protowire.AppendVarint(payload, protowire.EncodeZigZag(vs[i]))
	}
	in := c02Wrap(tag, payload)
	buf := nondetBytesLen("buf", len(in))
	NewEncoder(buf).EncodePackedSInt64(tag, vs)
	verifAssertBytesEq(buf, in, "encoder bytes equal the reference packed encoding")
	d := c01Decoder(in)
	c02DecodeKey(d, tag, WireTypeLengthDelimited)
	got, err := d.DecodePackedSint64()
	verifAssert3(err == nil, len(got) == n, d.Offset() == len(in), "count and cursor")
	for i := 0; i < n && i < len(got); i++ {
		verifAssert(got[i] == vs[i], "element equals the reference's")
	}
	verifReach("end")
}

func c02FixedCount() int {
	if verifTier() == 1 {
		return c01PackedRange(1, 40)
	}
	return c01PackedRange(1, 8)
}

func H_C02_PackedRef_Fixed32() {
	tag := c01Tag()
	n := c02FixedCount()
	vs := make([]uint32, n)
	svs := make([]int32, n)
	fvs := make([]float32, n)
	payload := make([]byte, 0, 400)
	for i := range vs {
		vs[i] = nondetU32N("v", i)
		svs[i] = int32(vs[i])
		fvs[i] = math.Float32frombits(vs[i])
		payload = protowire.AppendFixed32(payload, vs[i])
	}
	in := protowire.AppendBytes(protowire.AppendTag(make([]byte, 0, 400), protowire.Number(tag), protowire.BytesType), payload)
	which := nondetInt("kind")
	verifAssume(which >= 0)
	verifAssume(which <= 2)
	buf := nondetBytesLen("buf", len(in))
	switch which {
	case 0:
		NewEncoder(buf).EncodePackedFixed32(tag, vs)
	case 1:
		NewEncoder(buf).EncodePackedSFixed32(tag, svs)
	default:
		NewEncoder(buf).EncodePackedFloat32(tag, fvs)
	}
	verifAssertBytesEq(buf, in, "encoder bytes equal the reference packed encoding")
	d := c01Decoder(in)
	c02DecodeKey(d, tag, WireTypeLengthDelimited)
	if which == 2 {
		got, err := d.DecodePackedFloat32()
		verifAssert3(err == nil, len(got) == n, d.Offset() == len(in), "count and cursor")
		for i := 0; i < n && i < len(got); i++ {
			verifAssert(math.Float32bits(got[i]) == vs[i], "element equals the reference's")
		}
	} else {
		got, err := d.DecodePackedFixed32()
		verifAssert3(err == nil, len(got) == n, d.Offset() == len(in), "count and cursor")
		for i := 0; i < n && i < len(got); i++ {
			verifAssert(got[i] == vs[i], "element equals the reference's")
		}
	}
	verifReach("end")
}

func H_C02_PackedRef_Fixed64() {
	tag := c01Tag()
	n := c02FixedCount()
	vs := make([]uint64, n)
	svs := make([]int64, n)
	fvs := make([]float64, n)
	payload := make([]byte, 0, 400)
	for i := range vs {
		vs[i] = nondetU64N("v", i)
		svs[i] = int64(vs[i])
		fvs[i] = math.Float64frombits(vs[i])
		payload = protowire.AppendFixed64(payload, vs[i])
	}
	in := protowire.AppendBytes(protowire.AppendTag(make([]byte, 0, 400), protowire.Number(tag), protowire.BytesType), payload)
	which := nondetInt("kind")
	verifAssume(which >= 0)
	verifAssume(which <= 2)
	buf := nondetBytesLen("buf", len(in))
	switch which {
	case 0:
		NewEncoder(buf).EncodePackedFixed64(tag, vs)
	case 1:
		NewEncoder(buf).EncodePackedSFixed64(tag, svs)
	default:
		NewEncoder(buf).EncodePackedFloat64(tag, fvs)
	}
	verifAssertBytesEq(buf, in, "encoder bytes equal the reference packed encoding")
	d := c01Decoder(in)
	c02DecodeKey(d, tag, WireTypeLengthDelimited)
	if which == 2 {
		got, err := d.DecodePackedFloat64()
		verifAssert3(err == nil, len(got) == n, d.Offset() == len(in), "count and cursor")
		for i := 0; i < n && i < len(got); i++ {
			verifAssert(math.Float64bits(got[i]) == vs[i], "element equals the reference's")
		}
	} else {
		got, err := d.DecodePackedFixed64()
		verifAssert3(err == nil, len(got) == n, d.Offset() == len(in), "count and cursor")
		for i := 0; i < n && i < len(got); i++ {
			verifAssert(got[i] == vs[i], "element equals the reference's")
		}
	}
	verifReach("end")
}

func H_C02_PackedRef_Bool() {
	tag := c01Tag()
	n := c01PackedRange(1, 8+4*verifTier()) // every element doubles the decoder's paths (its value is a branch)
	vs := make([]bool, n)
	payload := make([]byte, 0, 400)
	for i := range vs {
		vs[i] = nondetBoolN("v", i)
		payload = protowire.AppendVarint(payload, protowire.EncodeBool(vs[i]))
	}
	in := protowire.AppendBytes(protowire.AppendTag(make([]byte, 0, 400), protowire.Number(tag), protowire.BytesType), payload)
	buf := nondetBytesLen("buf", len(in))
	NewEncoder(buf).EncodePackedBool(tag, vs)
	verifAssertBytesEq(buf, in, "encoder bytes equal the reference packed encoding")
	d := c01Decoder(in)
	c02DecodeKey(d, tag, WireTypeLengthDelimited)
	got, err := d.DecodePackedBool()
	verifAssert3(err == nil, len(got) == n, d.Offset() == len(in), "count and cursor")
	for i := 0; i < n && i < len(got); i++ {
		verifAssert(got[i] == vs[i], "element equals the reference's")
	}
	verifReach("end")
}

// ---- (c) Skip ----

// c02AppendField appends one reference-encoded field with symbolic number, wire type and payload.
func c02AppendField(b []byte, i int, tag int, wt int) []byte {
	switch wt {
	case 0:
		b = protowire.AppendTag(b, protowire.Number(tag), protowire.VarintType)
		b = protowire.AppendVarint(b, nondetU64N("fv", i))
	case 1:
		b = protowire.AppendTag(b, protowire.Number(tag), protowire.Fixed64Type)
		b = protowire.AppendFixed64(b, nondetU64N("fv", i))
	case 2:
		pmax := 4
		if verifTier() == 1 {
			pmax = 16
		}
		pl := nondetBytesN("fp", i, pmax)
		pl = pl[:verifConcretize(len(pl))]
		b = protowire.AppendTag(b, protowire.Number(tag), protowire.BytesType)
		b = protowire.AppendBytes(b, pl)
	default:
		b = protowire.AppendTag(b, protowire.Number(tag), protowire.Fixed32Type)
		b = protowire.AppendFixed32(b, nondetU32N("fv", i))
	}
	return b
}

func c02Skip(k int) {
	in := make([]byte, 0, 40*k)
	var starts, ends [4]int
	var tags, wts [4]int
	for i := 0; i < k; i++ {
		tag := nondetIntN("tag", i)
		verifAssume(tag >= 1)
		verifAssume(tag <= MaxTagValue)
		wt := nondetIntN("wt", i)
		verifAssume(wt == 0 || wt == 1 || wt == 2 || wt == 5)
		wt = verifConcretize(wt)
		starts[i] = len(in)
		in = c02AppendField(in, i, tag, wt)
		ends[i] = len(in)
		tags[i], wts[i] = tag, wt
	}
	d := c01Decoder(in)
	total := 0
	for i := 0; i < k; i++ {
		verifAssert(d.Offset() == starts[i], "cursor is on the start of the next field")
		t, wt, err := d.DecodeTag()
		verifAssert3(err == nil, t == tags[i], int(wt) == wts[i], "DecodeTag returns the reference's key")
		raw, err := d.Skip(t, wt)
		verifAssert(err == nil, "Skip accepts a well-formed field")
		verifAssert2(verifSameObject(raw, in), len(raw) == ends[i]-starts[i], "Skip returns a sub-slice of the input with the field's exact length")
		verifAssertBytesEq(raw, in[starts[i]:ends[i]], "Skip returns the field's complete raw encoding (key and payload)")
		verifAssert(d.Offset() == ends[i], "Skip leaves the cursor on the next field")
		total += len(raw)
	}
	verifAssert2(total == len(in), !d.More(), "concatenating the skipped fields reproduces the input")
	verifReach("end")
}

// c02SkipStep is the inductive step: the decoder stands on the first byte of one reference-encoded field
// that is preceded by P arbitrary bytes and followed by S arbitrary bytes. DecodeTag+Skip must return
// exactly in[P:end] (same backing array) and leave the cursor on end. Because the bytes before the field
// are arbitrary, this covers the i-th field of any message, and "the concatenation of the skipped fields
// reproduces the input" follows by induction on the number of fields (each piece is in[start_i:end_i]
// and end_i == start_{i+1}).
func c02SkipStep(wt int) {
	P := nondetInt("P")
	verifAssume(P == 0 || P == 1 || P == 9)
	P = verifConcretize(P)
	S := nondetInt("S")
	verifAssume(S == 0 || S == 3)
	S = verifConcretize(S)
	pre := nondetBytesLen("pre", P)
	suf := nondetBytesLen("suf", S)
	tag := c01Tag()
	in := make([]byte, 0, 96)
	in = append(in, pre...)
	in = c02AppendField(in, 0, tag, wt)
	end := len(in)
	in = append(in, suf...)
	d := c01Decoder(in)
	_, err := d.Seek(int64(P), 0)
	verifAssert(err == nil, "seek to the field start")
	t, gotwt, err := d.DecodeTag()
	verifAssert3(err == nil, t == tag, int(gotwt) == wt, "DecodeTag returns the reference's key")
	raw, err := d.Skip(t, gotwt)
	verifAssert(err == nil, "Skip accepts a well-formed field")
	verifAssert2(verifSameObject(raw, in), len(raw) == end-P, "Skip returns a sub-slice of the input with the field's exact length")
	verifAssertBytesEq(raw, in[P:end], "Skip returns the field's complete raw encoding (key and payload)")
	verifAssert2(d.Offset() == end, d.More() == (S > 0), "Skip leaves the cursor on the next field")
	verifReach("end")
}

func H_C02_Skip_Step_Varint()  { c02SkipStep(0) }
func H_C02_Skip_Step_Fixed64() { c02SkipStep(1) }
func H_C02_Skip_Step_Bytes()   { c02SkipStep(2) }
func H_C02_Skip_Step_Fixed32() { c02SkipStep(5) }

// whole-message form (cross-check of the induction argument): k reference-encoded fields
func H_C02_Skip_1()          { c02Skip(1) }
