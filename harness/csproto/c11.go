//go:build verif

package csproto

import (
	"errors"
	"fmt"
	"reflect"
	"sync"

	gogotypes "github.com/gogo/protobuf/types"
	"google.golang.org/protobuf/proto"
	"google.golang.org/protobuf/types/known/wrapperspb"
)

// C11 — the runtime-agnostic API is a transparent, stable dispatcher (level: other).
//
// The message argument ranges over a fixed family of candidate values whose *real method sets* realise every
// combination of tiers the dispatch code distinguishes (csproto methods / v1 XXX_ methods / v2 proto.Message /
// gogo-registered / legacy v1 / non-message pointer / non-pointer / typed nil / nil interface). The choice is
// a symbolic index that is case-split; type assertions are decided by go/types on the real method sets.
// The three runtimes' own functions (proto.Marshal/Size/Unmarshal/Clone/Equal/Reset, prototext, MessageName) are
// contract stubs that log their invocation - their behaviour is the runtimes' contract, not csproto's code.
// Tier order is observed through counters in the candidate types (visible to the native replay as well).

var errC11 = errors.New("candidate method failed")

type c11Counters struct{ size, marshal, unmarshal, xsize, xmarshal, xunmarshal, reset, text int }

// csproto tier on top of a real v2 message: csproto's own methods must win
type c11FastV2 struct {
	*wrapperspb.StringValue
	c    *c11Counters
	fail bool
}

func (m *c11FastV2) Size() int { m.c.size++; return 3 }
func (m *c11FastV2) Marshal() ([]byte, error) {
	m.c.marshal++
	if m.fail {
		return nil, errC11
	}
	return []byte{0x0a, 0x01, 0x78}, nil
}
func (m *c11FastV2) Unmarshal(b []byte) error {
	m.c.unmarshal++
	if m.fail {
		return errC11
	}
	return nil
}

// v1 tier on top of a real v2 message: the XXX_ methods must win over proto.Message
type c11V1V2 struct {
	*wrapperspb.StringValue
	c    *c11Counters
	fail bool
}

func (m *c11V1V2) XXX_Size() int { m.c.xsize++; return 3 }
func (m *c11V1V2) XXX_Marshal(b []byte, deterministic bool) ([]byte, error) {
	m.c.xmarshal++
	if m.fail {
		return nil, errC11
	}
	return append(b, 0x0a, 0x01, 0x78), nil
}
func (m *c11V1V2) XXX_Unmarshal(b []byte) error {
	m.c.xunmarshal++
	if m.fail {
		return errC11
	}
	return nil
}

// a legacy (golang/protobuf v1 style) message that no runtime has registered
type c11Legacy struct {
	c *c11Counters
}

func (m *c11Legacy) Reset()         { m.c.reset++ }
func (m *c11Legacy) String() string { return "legacy" }
func (m *c11Legacy) ProtoMessage()  {}

// something with a text form of its own
type c11Text struct{ c *c11Counters }

func (m *c11Text) MarshalText() ([]byte, error) { m.c.text++; return []byte("txt"), nil }

const (
	c11Nil = iota
	c11TypedNilV2
	c11V2
	c11Gogo
	c11CandFastV2
	c11CandV1V2
	c11CandLegacy
	c11CandText
	c11NonMsgPtr
	c11NonPtr
	c11Count
)

func c11Pick(name string, c *c11Counters) (interface{}, int) {
	k := nondetInt(name)
	verifAssume(k >= 0)
	verifAssume(k < c11Count)
	k = verifConcretize(k)
	fail := false
	if k == c11CandFastV2 || k == c11CandV1V2 {
		fail = nondetBool(name + "_fail")
	}
	switch k {
	case c11Nil:
		return nil, k
	case c11TypedNilV2:
		return (*wrapperspb.StringValue)(nil), k
	case c11V2:
		return &wrapperspb.StringValue{Value: "x"}, k
	case c11Gogo:
		return &gogotypes.StringValue{Value: "x"}, k
	case c11CandFastV2:
		return &c11FastV2{StringValue: &wrapperspb.StringValue{Value: "x"}, c: c, fail: fail}, k
	case c11CandV1V2:
		return &c11V1V2{StringValue: &wrapperspb.StringValue{Value: "x"}, c: c, fail: fail}, k
	case c11CandLegacy:
		return &c11Legacy{c: c}, k
	case c11CandText:
		return &c11Text{c: c}, k
	case c11NonMsgPtr:
		return &c03Opaque{}, k
	default:
		return 42, k
	}
}

func c11WantType(k int) MessageType {
	switch k {
	case c11TypedNilV2, c11V2, c11CandFastV2, c11CandV1V2:
		return MessageTypeGoogle
	case c11Gogo:
		return MessageTypeGogo
	case c11CandLegacy:
		return MessageTypeGoogleV1
	default: // nil interface, non-message pointers, non-pointers: not a message of any runtime
		return MessageTypeUnknown
	}
}

// classification is correct and stable: the first use and every later use (cache hit) agree
// c11NativeConcurrent: first use of many types by 32 goroutines at once; every caller must get the right answer
func c11NativeConcurrent() {
	type tc struct {
		v    interface{}
		want MessageType
	}
	cases := []tc{
		{&wrapperspb.StringValue{}, MessageTypeGoogle}, {&wrapperspb.BoolValue{}, MessageTypeGoogle}, {&wrapperspb.BytesValue{}, MessageTypeGoogle},
		{&wrapperspb.DoubleValue{}, MessageTypeGoogle}, {&wrapperspb.FloatValue{}, MessageTypeGoogle}, {&wrapperspb.Int32Value{}, MessageTypeGoogle},
		{&wrapperspb.Int64Value{}, MessageTypeGoogle}, {&wrapperspb.UInt32Value{}, MessageTypeGoogle}, {&wrapperspb.UInt64Value{}, MessageTypeGoogle},
		{&gogotypes.StringValue{}, MessageTypeGogo}, {&gogotypes.BoolValue{}, MessageTypeGogo}, {&gogotypes.BytesValue{}, MessageTypeGogo},
		{&gogotypes.DoubleValue{}, MessageTypeGogo}, {&gogotypes.Int32Value{}, MessageTypeGogo}, {&gogotypes.Int64Value{}, MessageTypeGogo},
		{&gogotypes.Timestamp{}, MessageTypeGogo}, {&gogotypes.Duration{}, MessageTypeGogo}, {&gogotypes.Empty{}, MessageTypeGogo},
		{&c11Legacy{}, MessageTypeGoogleV1}, {&c11FastV2{}, MessageTypeGoogle}, {&c11V1V2{}, MessageTypeGoogle},
	}
	bad := make(chan string, 1024)
	for _, c := range cases {
		var start, done sync.WaitGroup
		start.Add(1)
		for g := 0; g < 32; g++ {
			done.Add(1)
			go func(c tc) {
				defer done.Done()
				start.Wait()
				if got := MsgType(c.v); got != c.want {
					select {
					case bad <- fmt.Sprintf("%T classified %v, want %v", c.v, got, c.want):
					default:
					}
				}
			}(c)
		}
		start.Done()
		done.Wait()
	}
	close(bad)
	for b := range bad {
		verifAssert(false, "native: concurrent first use gives every goroutine the correct classification: "+b)
	}
}

func H_C11_MsgType() {
	if verifNative() {
		c11NativeConcurrent()
	}
	c := &c11Counters{}
	m, k := c11Pick("m", c)
	first := MsgType(m)
	second := MsgType(m)
	verifAssert(first == c11WantType(k), "the runtime classification is correct")
	verifAssert(second == first, "a later use (cache hit) gives the same classification")
	// a second value of another type does not disturb it
	m2, k2 := c11Pick("m2", c)
	verifAssert(MsgType(m2) == c11WantType(k2), "classification of a second type")
	verifAssert(MsgType(m) == first, "classification is a function of the dynamic type only")
	verifReach("end")
}

func H_C11_Marshal() {
	c := &c11Counters{}
	m, k := c11Pick("m", c)
	b, err := Marshal(m)
	switch k {
	case c11CandFastV2:
		verifAssert3(c.marshal == 1, c.xmarshal == 0, !verifCalled("google.golang.org/protobuf/proto.Marshal"), "csproto's Marshal method is used, exactly once, and nothing else")
		verifAssert((err == nil) == (len(b) == 3), "its result is returned unchanged")
	case c11CandV1V2:
		verifAssert3(c.xmarshal == 1, c.xsize == 1, !verifCalled("google.golang.org/protobuf/proto.Marshal"), "the v1 XXX_ methods are used before the v2 runtime")
		verifAssert((err == nil) == (len(b) == 3), "its result is returned unchanged")
	case c11V2, c11TypedNilV2:
		if !verifNative() {
			verifAssert(verifCalled("google.golang.org/protobuf/proto.Marshal"), "a plain v2 message is marshaled by the v2 runtime")
		}
	case c11Gogo:
		if verifNative() {
			verifAssert2(err == nil, len(b) == 3, "native: a gogo message marshals through its generated method")
		}
	default:
		verifAssert2(errors.Is(err, ErrMarshaler), b == nil, "an unsupported value yields the documented error, not a panic")
	}
	verifReach("end")
}

func H_C11_Size() {
	c := &c11Counters{}
	m, k := c11Pick("m", c)
	n := Size(m)
	switch k {
	case c11CandFastV2:
		verifAssert3(n == 3, c.size == 1, c.xsize == 0, "csproto's Size method is used")
	case c11CandV1V2:
		verifAssert2(n == 3, c.xsize == 1, "the v1 XXX_Size method is used before the v2 runtime")
	case c11V2, c11TypedNilV2:
		if !verifNative() {
			verifAssert(verifCalled("google.golang.org/protobuf/proto.Size"), "a plain v2 message is sized by the v2 runtime")
		}
	case c11Gogo:
	default:
		verifAssert(n == 0, "an unsupported value has size 0, no panic")
	}
	// Size and Marshal come from the same tier, so Size equals the length of the marshaled bytes
	if verifNative() && (k == c11V2 || k == c11Gogo || k == c11CandFastV2 || k == c11CandV1V2) {
		b, err := Marshal(m)
		verifAssert(err != nil || len(b) == n, "native: Size equals the length of the marshaled bytes")
	}
	verifReach("end")
}

func H_C11_Unmarshal() {
	c := &c11Counters{}
	m, k := c11Pick("m", c)
	verifAssume(k != c11TypedNilV2) // decoding into a typed nil pointer panics inside the v2 runtime itself; csproto only forwards
	err := Unmarshal([]byte{0x0a, 0x01, 0x78}, m)
	switch k {
	case c11CandFastV2:
		verifAssert3(c.unmarshal == 1, c.xunmarshal == 0, !verifCalled("google.golang.org/protobuf/proto.Unmarshal"), "csproto's Unmarshal method is used")
	case c11CandV1V2:
		verifAssert2(c.xunmarshal == 1, !verifCalled("google.golang.org/protobuf/proto.Unmarshal"), "the v1 XXX_Unmarshal method is used before the v2 runtime")
	case c11V2:
		if !verifNative() {
			verifAssert(verifCalled("google.golang.org/protobuf/proto.Unmarshal"), "a plain v2 message is decoded by the v2 runtime")
		} else {
			verifAssert(err == nil, "native: the v2 runtime decodes the bytes")
		}
	case c11Gogo, c11TypedNilV2:
	default:
		verifAssert(errors.Is(err, ErrUnmarshaler), "an unsupported value yields the documented error, not a panic")
	}
	verifReach("end")
}

func H_C11_GrpcCodec() {
	c := &c11Counters{}
	m, k := c11Pick("m", c)
	verifAssume(k != c11TypedNilV2) // see H_C11_Unmarshal
	var codec GrpcCodec
	verifAssert(codec.Name() == "proto", "codec name")
	b, err := codec.Marshal(m)
	if k == c11CandFastV2 {
		verifAssert2(c.marshal == 1, (err == nil) == (len(b) == 3), "the gRPC codec marshals through csproto.Marshal")
	}
	err = codec.Unmarshal([]byte{0x0a, 0x01, 0x78}, m)
	if k == c11CandFastV2 {
		verifAssert(c.unmarshal == 1, "the gRPC codec unmarshals through csproto.Unmarshal")
	}
	if k == c11Nil || k == c11NonMsgPtr || k == c11NonPtr || k == c11CandText || k == c11CandLegacy {
		verifAssert(errors.Is(err, ErrUnmarshaler), "unsupported values are errors")
	}
	verifReach("end")
}

func H_C11_Clone() {
	c := &c11Counters{}
	m, k := c11Pick("m", c)
	r := Clone(m)
	switch c11WantType(k) {
	case MessageTypeUnknown:
		verifAssert(r == nil, "cloning an unsupported value yields nil, not a panic")
	case MessageTypeGoogle:
		if !verifNative() {
			verifAssert(verifCalled("google.golang.org/protobuf/proto.Clone"), "a v2 message is cloned by the v2 runtime")
		} else if k == c11V2 || k == c11TypedNilV2 {
			want := proto.Clone(m.(proto.Message))
			verifAssert2(reflect.TypeOf(r) == reflect.TypeOf(want), Equal(r, m), "native: the clone is what the owning runtime's Clone returns (same dynamic type, typed nil included) and equals the original")
		}
	case MessageTypeGogo:
		if !verifNative() {
			verifAssert(verifCalled("github.com/gogo/protobuf/proto.Clone"), "a gogo message is cloned by the gogo runtime")
		}
	case MessageTypeGoogleV1:
		if !verifNative() {
			verifAssert(verifCalled("github.com/golang/protobuf/proto.Clone"), "a v1 message is cloned by the v1 runtime")
		}
	}
	verifReach("end")
}

func H_C11_Equal() {
	c := &c11Counters{}
	m1, k1 := c11Pick("m1", c)
	m2, k2 := c11Pick("m2", c)
	eq := Equal(m1, m2)
	t1, t2 := c11WantType(k1), c11WantType(k2)
	if t1 != t2 || t1 == MessageTypeUnknown {
		verifAssert(!eq, "values of different runtimes or unsupported values are never equal; no panic")
	} else if !verifNative() {
		switch t1 {
		case MessageTypeGoogle:
			verifAssert(verifCalled("google.golang.org/protobuf/proto.Equal"), "v2 messages are compared by the v2 runtime")
		case MessageTypeGogo:
			verifAssert(verifCalled("github.com/gogo/protobuf/proto.Equal"), "gogo messages are compared by the gogo runtime")
		case MessageTypeGoogleV1:
			verifAssert(verifCalled("github.com/golang/protobuf/proto.Equal"), "v1 messages are compared by the v1 runtime")
		}
	}
	verifReach("end")
}

func H_C11_MarshalText() {
	c := &c11Counters{}
	m, k := c11Pick("m", c)
	s, err := MarshalText(m)
	switch {
	case k == c11CandText:
		verifAssert3(err == nil, s == "txt", c.text == 1, "a TextMarshaler is used directly")
	case c11WantType(k) == MessageTypeUnknown:
		verifAssert2(err != nil, s == "", "an unsupported value yields an error, not a panic")
	default:
		verifAssert(err == nil, "a message of a supported runtime has a text form")
	}
	verifReach("end")
}

// Reset is documented to panic for unsupported values; everything with a Reset method is reset through it
func H_C11_Reset() {
	c := &c11Counters{}
	m, k := c11Pick("m", c)
	verifAssume(k == c11V2 || k == c11Gogo || k == c11CandFastV2 || k == c11CandV1V2 || k == c11CandLegacy)
	Reset(m)
	if k == c11CandLegacy {
		verifAssert(c.reset == 1, "the value's own Reset method is called")
	}
	verifReach("end")
}
