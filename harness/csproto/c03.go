//go:build verif

package csproto

import (
	"errors"
	"io"

	"google.golang.org/protobuf/encoding/protowire"
)

// C03 — the decoder is total and bounds-safe on arbitrary bytes (inductive form).
//
// Pre-state: an arbitrary decoder — buffer p of symbolic length L <= Lmax with symbolic contents, cursor
// anywhere in [0, L], either mode. One call of one API function. Post-conditions:
//   * no implicit panic anywhere below the call (index, slice, nil, makeslice, ...)  [engine obligations]
//   * the invariant is re-established: 0 <= Offset() <= L and p is not written      [=> any call sequence]
//   * err == nil  =>  the advance equals the item's encoded length as the protowire reference computes
//     it on p[off:], and every returned slice lies inside p
//   * allocation: every make() with a symbolic capacity is <= 8*L+64 elements
// Inputs longer than Lmax are outside the claim (the code's only length-dependent branch is len < 10).

func c03Lmax(quick, thorough int) int {
	if verifTier() == 1 {
		return thorough
	}
	return quick
}

type c03State struct {
	d   *Decoder
	p   []byte
	off int
}

// the varint readers are pure: their paths are joined per outcome (value/length as ite-terms) instead of
// being explored one by one
func c03Merge() {
	verifMerge("github.com/CrowdStrike/csproto.DecodeVarint")
	verifMerge("google.golang.org/protobuf/encoding/protowire.ConsumeVarint")
	verifMerge("github.com/CrowdStrike/csproto.c03RefBytesLen")
}

// protowire's error codes (negative lengths)
const (
	c03Truncated = -1
	c03Overflow  = -3 // a 10-byte varint whose last byte overflows 64 bits: csproto truncates instead of rejecting; no claim either way
)

func c03Pre(lmax int) c03State {
	c03Merge()
	return c03PreNoMerge(lmax)
}

// packed varint readers: joining the per-element outcomes makes every later offset an ite-chain and the
// queries slower than the path explosion they avoid, so these are explored path by path on shorter inputs
func c03PreNoMerge(lmax int) c03State {
	p := nondetBytes("p", lmax)
	off := nondetInt("off")
	verifAssume(off >= 0)
	verifAssume(off <= len(p))
	d := c01Decoder(p)
	_, err := d.Seek(int64(off), io.SeekStart)
	verifAssert2(err == nil, d.Offset() == off, "Seek to a valid position succeeds")
	verifSnapshot(p)
	verifAllocLimit(8*len(p) + 64)
	return c03State{d, p, off}
}

// c03Post checks the invariant; adv is the reference length of the item at p[off:] (negative: reference rejects).
func c03Post(s c03State, err error, adv int) {
	now := s.d.Offset()
	verifAssert2(now >= 0, now <= len(s.p), "cursor stays within [0, len(input)]")
	verifAssert(verifUnchanged(s.p), "the input buffer is not written")
	if err == nil {
		verifAssert(verifImplies(adv >= 0, now == s.off+adv), "on success the cursor advances by exactly the item's encoded length")
		verifAssert(now >= s.off, "on success the cursor does not move backwards")
	}
	verifReach("end")
}

// c03VarintVal is the value the reference reads at the cursor (only meaningful when c03VarintLen >= 0)
func c03VarintVal(s c03State) uint64 {
	v, _ := protowire.ConsumeVarint(s.p[s.off:])
	return v
}

func c03VarintLen(s c03State) int {
	_, n := protowire.ConsumeVarint(s.p[s.off:])
	return n
}

func c03BytesLen(s c03State) int { return c03RefBytesLen(s.p[s.off:]) }

// c03RefBytesLen is protowire.ConsumeBytes' length result (same three cases, same order), kept free of
// slice results so that its paths can be joined into one term
func c03RefBytesLen(b []byte) int {
	m, n := protowire.ConsumeVarint(b)
	if n < 0 {
		return n
	}
	if m > uint64(len(b)-n) {
		return c03Truncated
	}
	return n + int(m)
}

func H_C03_DecodeTag() {
	s := c03Pre(c03Lmax(24, 40))
	tag, _, err := s.d.DecodeTag()
	if err == nil {
		verifAssert2(tag >= 1, tag <= MaxTagValue, "an accepted field number is valid")
	}
	c03Post(s, err, c03VarintLen(s))
}

func H_C03_DecodeBool() {
	s := c03Pre(c03Lmax(24, 40))
	got, err := s.d.DecodeBool()
	if err == nil {
		verifAssert(verifImplies(c03VarintLen(s) >= 0, got == (c03VarintVal(s) != 0)), "the value is the one the reference reads from the same bytes (any number of bytes may follow)")
	}
	c03Post(s, err, c03VarintLen(s))
}

func H_C03_DecodeUInt32() {
	s := c03Pre(c03Lmax(24, 40))
	got, err := s.d.DecodeUInt32()
	if err == nil {
		verifAssert(verifImplies(c03VarintLen(s) >= 0, uint64(got) == c03VarintVal(s)), "the value is the one the reference reads from the same bytes (any number of bytes may follow)")
	}
	c03Post(s, err, c03VarintLen(s))
}

func H_C03_DecodeUInt64() {
	s := c03Pre(c03Lmax(24, 40))
	got, err := s.d.DecodeUInt64()
	if err == nil {
		verifAssert(verifImplies(c03VarintLen(s) >= 0, got == c03VarintVal(s)), "the value is the one the reference reads from the same bytes (any number of bytes may follow)")
	}
	c03Post(s, err, c03VarintLen(s))
}

func H_C03_DecodeInt32() {
	s := c03Pre(c03Lmax(24, 40))
	got, err := s.d.DecodeInt32()
	if err == nil {
		verifAssert(verifImplies(c03VarintLen(s) >= 0, uint64(int64(got)) == c03VarintVal(s)), "the value is the one the reference reads from the same bytes (any number of bytes may follow)")
	}
	c03Post(s, err, c03VarintLen(s))
}

func H_C03_DecodeInt64() {
	s := c03Pre(c03Lmax(24, 40))
	got, err := s.d.DecodeInt64()
	if err == nil {
		verifAssert(verifImplies(c03VarintLen(s) >= 0, uint64(got) == c03VarintVal(s)), "the value is the one the reference reads from the same bytes (any number of bytes may follow)")
	}
	c03Post(s, err, c03VarintLen(s))
}

func H_C03_DecodeSInt32() {
	s := c03Pre(c03Lmax(24, 40))
	got, err := s.d.DecodeSInt32()
	if err == nil {
		verifAssert(verifImplies(c03VarintLen(s) >= 0, int64(got) == protowire.DecodeZigZag(c03VarintVal(s))), "the value is the one the reference reads from the same bytes (any number of bytes may follow)")
	}
	c03Post(s, err, c03VarintLen(s))
}

func H_C03_DecodeSInt64() {
	s := c03Pre(c03Lmax(24, 40))
	got, err := s.d.DecodeSInt64()
	if err == nil {
		verifAssert(verifImplies(c03VarintLen(s) >= 0, got == protowire.DecodeZigZag(c03VarintVal(s))), "the value is the one the reference reads from the same bytes (any number of bytes may follow)")
	}
	c03Post(s, err, c03VarintLen(s))
}

func H_C03_DecodeFixed32() {
	s := c03Pre(c03Lmax(24, 40))
	_, err := s.d.DecodeFixed32()
	c03Post(s, err, 4)
}

func H_C03_DecodeFixed64() {
	s := c03Pre(c03Lmax(24, 40))
	_, err := s.d.DecodeFixed64()
	c03Post(s, err, 8)
}

func H_C03_DecodeFloat32() {
	s := c03Pre(c03Lmax(24, 40))
	_, err := s.d.DecodeFloat32()
	c03Post(s, err, 4)
}

func H_C03_DecodeFloat64() {
	s := c03Pre(c03Lmax(24, 40))
	_, err := s.d.DecodeFloat64()
	c03Post(s, err, 8)
}

func H_C03_DecodeBytes() {
	s := c03Pre(c03Lmax(24, 40))
	b, err := s.d.DecodeBytes()
	if err == nil {
		// fast mode: a sub-slice of the input; safe mode: a copy (the caller may reuse the input, C10)
		verifAssert(len(b) == 0 || verifSameObject(b, s.p) == (s.d.Mode() == DecoderModeFast), "the returned slice is a sub-slice of the input exactly in fast mode")
		verifAssert(len(b) <= len(s.p)-s.off, "a declared length beyond the remaining input is an error")
	}
	c03Post(s, err, c03BytesLen(s))
}

func H_C03_DecodeString() {
	s := c03Pre(c03Lmax(24, 40))
	str, err := s.d.DecodeString()
	if err == nil {
		verifAssert(len(str) <= len(s.p)-s.off, "a declared length beyond the remaining input is an error")
	}
	c03Post(s, err, c03BytesLen(s))
}

// packed readers: the item is the whole length-delimited run
func H_C03_DecodePackedBool() {
	s := c03PreNoMerge(c03Lmax(8, 11))
	_, err := s.d.DecodePackedBool()
	c03Post(s, err, c03BytesLen(s))
}

func H_C03_DecodePackedInt32() {
	s := c03PreNoMerge(c03Lmax(8, 11))
	_, err := s.d.DecodePackedInt32()
	c03Post(s, err, c03BytesLen(s))
}

func H_C03_DecodePackedInt64() {
	s := c03PreNoMerge(c03Lmax(8, 11))
	_, err := s.d.DecodePackedInt64()
	c03Post(s, err, c03BytesLen(s))
}

func H_C03_DecodePackedUint32() {
	s := c03PreNoMerge(c03Lmax(8, 11))
	_, err := s.d.DecodePackedUint32()
	c03Post(s, err, c03BytesLen(s))
}

func H_C03_DecodePackedUint64() {
	s := c03PreNoMerge(c03Lmax(8, 11))
	_, err := s.d.DecodePackedUint64()
	c03Post(s, err, c03BytesLen(s))
}

func H_C03_DecodePackedSint32() {
	s := c03PreNoMerge(c03Lmax(8, 11))
	_, err := s.d.DecodePackedSint32()
	c03Post(s, err, c03BytesLen(s))
}

func H_C03_DecodePackedSint64() {
	s := c03PreNoMerge(c03Lmax(8, 11))
	_, err := s.d.DecodePackedSint64()
	c03Post(s, err, c03BytesLen(s))
}

func H_C03_DecodePackedFixed32() {
	s := c03Pre(c03Lmax(24, 40))
	_, err := s.d.DecodePackedFixed32()
	c03Post(s, err, c03BytesLen(s))
}

func H_C03_DecodePackedFixed64() {
	s := c03Pre(c03Lmax(24, 40))
	_, err := s.d.DecodePackedFixed64()
	c03Post(s, err, c03BytesLen(s))
}

func H_C03_DecodePackedFloat32() {
	s := c03Pre(c03Lmax(24, 40))
	_, err := s.d.DecodePackedFloat32()
	c03Post(s, err, c03BytesLen(s))
}

func H_C03_DecodePackedFloat64() {
	s := c03Pre(c03Lmax(24, 40))
	_, err := s.d.DecodePackedFloat64()
	c03Post(s, err, c03BytesLen(s))
}

// ---- DecodeNested ----

var errC03Nested = errors.New("nested decoder failed")

type c03Unmarshaler struct {
	calls int
	got   []byte
	fail  bool
}

func (u *c03Unmarshaler) Unmarshal(b []byte) error {
	u.calls++
	u.got = b
	if u.fail {
		return errC03Nested
	}
	return nil
}

func H_C03_DecodeNested_Unmarshaler() {
	s := c03Pre(c03Lmax(24, 40))
	u := &c03Unmarshaler{fail: nondetBool("fail")}
	err := s.d.DecodeNested(u)
	want := c03BytesLen(s)
	if want == c03Truncated {
		verifAssert2(err != nil, u.calls == 0, "a truncated or over-long length is rejected without invoking the nested decoder")
	} else if want >= 0 {
		verifAssert(u.calls == 1, "the nested decoder is invoked exactly once on a well-formed field")
		verifAssert((err != nil) == u.fail, "the nested decoder's verdict is the call's verdict")
		pl, _ := protowire.ConsumeBytes(s.p[s.off:])
		verifAssert2(len(u.got) == len(pl), len(u.got) == 0 || verifSameObject(u.got, s.p), "the nested decoder receives exactly the declared sub-slice")
		verifAssertBytesEq(u.got, pl, "the nested decoder receives the payload bytes")
		if err != nil {
			verifAssert2(errors.Is(err, errC03Nested), s.d.Offset() == s.off, "a nested error is returned (possibly wrapped) and the cursor does not advance")
		}
	}
	c03Post(s, err, want)
}

// a message type no tier knows: DecodeNested falls back to csproto.Unmarshal, which reports ErrUnmarshaler
type c03Opaque struct{ x int }

func H_C03_DecodeNested_Fallback() {
	s := c03Pre(c03Lmax(24, 40))
	err := s.d.DecodeNested(&c03Opaque{})
	verifAssert(err != nil, "an unsupported message type is an error")
	verifAssert(s.d.Offset() == s.off, "the cursor does not advance on error")
	c03Post(s, err, -1)
}

// ---- Skip with arbitrary (tag, wire type) arguments ----

func H_C03_Skip() {
	s := c03Pre(c03Lmax(14, 24))
	tag := nondetInt("tag")
	wt := nondetInt("wt")
	verifAssume(wt >= -1)
	verifAssume(wt <= 8)
	wt = verifConcretize(wt)
	raw, err := s.d.Skip(tag, WireType(wt))
	want := -1
	if err == nil {
		verifAssert(len(raw) == 0 || verifSameObject(raw, s.p), "the returned slice lies inside the input")
		switch wt {
		case 0:
			want = c03VarintLen(s)
		case 1:
			want = 8
		case 2:
			want = c03BytesLen(s)
		case 5:
			want = 4
		default:
			verifAssert(false, "an unsupported wire type is an error")
		}
		verifAssert(want >= 0 || want == c03Overflow, "a value the reference cannot delimit is an error")
	}
	c03Post(s, err, want)
}

// ---- Seek / Reset / SetMode / More / Offset ----

func H_C03_Seek() {
	s := c03Pre(c03Lmax(24, 40))
	o := nondetI64("seekoff")
	wh := nondetInt("whence")
	verifAssume(wh >= -1)
	verifAssume(wh <= 3)
	wh = verifConcretize(wh)
	pos, err := s.d.Seek(o, wh)
	now := s.d.Offset()
	verifAssert(pos == int64(now), "Seek reports the resulting position")
	if err != nil {
		verifAssert(now == s.off, "a rejected Seek leaves the cursor unchanged")
	} else {
		// the documented meaning of whence, computed without wrap-around
		switch wh {
		case io.SeekStart:
			verifAssert(int64(now) == o, "SeekStart positions at offset")
		case io.SeekCurrent:
			verifAssert(int64(now) == int64(s.off)+o, "SeekCurrent positions relative to the cursor")
		case io.SeekEnd:
			verifAssert(int64(now) == int64(len(s.p))+o, "SeekEnd positions relative to the end")
		default:
			verifAssert(false, "an invalid whence is an error")
		}
	}
	c03Post(s, errors.New("no advance claim"), -1)
}

func H_C03_Misc() {
	s := c03Pre(c03Lmax(24, 40))
	verifAssert(s.d.More() == (s.off < len(s.p)), "More reports whether input remains")
	m := nondetInt("newmode")
	verifAssume(m >= 0)
	verifAssume(m <= 1)
	s.d.SetMode(DecoderMode(m))
	verifAssert2(s.d.Mode() == DecoderMode(m), s.d.Offset() == s.off, "SetMode switches the mode and nothing else")
	s.d.Reset()
	verifAssert(s.d.Offset() == 0, "Reset rewinds to the start")
	c03Post(s, errors.New("no advance claim"), -1)
}
