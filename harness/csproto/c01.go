//go:build verif

package csproto

import "math"

// C01 — wire primitives round-trip exactly and sizes are exact.
//
// Shape of every harness: the field number ranges over all of [1, 2^29-1], the value over the whole Go
// type, the decoder mode over {safe, fast}. The output buffer is sized only from the size helpers and
// has *symbolic initial contents*, so slack (bytes the encoder did not write) would reach the decoder as
// arbitrary garbage; an overrun is an index panic. Only the exported API is used.

func c01Tag() int {
	tag := nondetInt("tag")
	verifAssume(tag >= 1)
	verifAssume(tag <= MaxTagValue)
	return tag
}

func c01Decoder(buf []byte) *Decoder {
	d := NewDecoder(buf)
	mode := nondetInt("mode")
	verifAssume(mode >= 0)
	verifAssume(mode <= 1)
	d.SetMode(DecoderMode(mode))
	return d
}

func c01Key(d *Decoder, tag int, want WireType) {
	t, wt, err := d.DecodeTag()
	verifAssert3(err == nil, t == tag, wt == want, "key: DecodeTag returns the field number and wire type written")
}

func H_C01_Bool() {
	tag := c01Tag()
	v := nondetBool("v")
	klen := verifConcretize(SizeOfTagKey(tag))
	buf := nondetBytesLen("buf", klen+1)
	e := NewEncoder(buf)
	e.EncodeBool(tag, v)
	d := c01Decoder(buf)
	c01Key(d, tag, WireTypeVarint)
	got, err := d.DecodeBool()
	verifAssert3(err == nil, got == v, d.Offset() == len(buf), "value and cursor")
	verifReach("end")
}

func H_C01_UInt32() {
	tag := c01Tag()
	v := nondetU32("v")
	klen := verifConcretize(SizeOfTagKey(tag))
	vlen := verifConcretize(SizeOfVarint(uint64(v)))
	buf := nondetBytesLen("buf", klen+vlen)
	e := NewEncoder(buf)
	e.EncodeUInt32(tag, v)
	d := c01Decoder(buf)
	c01Key(d, tag, WireTypeVarint)
	got, err := d.DecodeUInt32()
	verifAssert3(err == nil, got == v, d.Offset() == len(buf), "value and cursor")
	verifReach("end")
}

func H_C01_UInt64() {
	tag := c01Tag()
	v := nondetU64("v")
	klen := verifConcretize(SizeOfTagKey(tag))
	vlen := verifConcretize(SizeOfVarint(v))
	buf := nondetBytesLen("buf", klen+vlen)
	e := NewEncoder(buf)
	e.EncodeUInt64(tag, v)
	d := c01Decoder(buf)
	c01Key(d, tag, WireTypeVarint)
	got, err := d.DecodeUInt64()
	verifAssert3(err == nil, got == v, d.Offset() == len(buf), "value and cursor")
	verifReach("end")
}

func H_C01_Int32() {
	tag := c01Tag()
	v := nondetI32("v")
	klen := verifConcretize(SizeOfTagKey(tag))
	vlen := verifConcretize(SizeOfVarint(uint64(v)))
	buf := nondetBytesLen("buf", klen+vlen)
	e := NewEncoder(buf)
	e.EncodeInt32(tag, v)
	d := c01Decoder(buf)
	c01Key(d, tag, WireTypeVarint)
	got, err := d.DecodeInt32()
	verifAssert3(err == nil, got == v, d.Offset() == len(buf), "value and cursor")
	verifReach("end")
}

func H_C01_Int64() {
	tag := c01Tag()
	v := nondetI64("v")
	klen := verifConcretize(SizeOfTagKey(tag))
	vlen := verifConcretize(SizeOfVarint(uint64(v)))
	buf := nondetBytesLen("buf", klen+vlen)
	e := NewEncoder(buf)
	e.EncodeInt64(tag, v)
	d := c01Decoder(buf)
	c01Key(d, tag, WireTypeVarint)
	got, err := d.DecodeInt64()
	verifAssert3(err == nil, got == v, d.Offset() == len(buf), "value and cursor")
	verifReach("end")
}

func H_C01_SInt32() {
	tag := c01Tag()
	v := nondetI32("v")
	klen := verifConcretize(SizeOfTagKey(tag))
	vlen := verifConcretize(SizeOfZigZag(uint64(v)))
	buf := nondetBytesLen("buf", klen+vlen)
	e := NewEncoder(buf)
	e.EncodeSInt32(tag, v)
	d := c01Decoder(buf)
	c01Key(d, tag, WireTypeVarint)
	got, err := d.DecodeSInt32()
	verifAssert3(err == nil, got == v, d.Offset() == len(buf), "value and cursor")
	verifReach("end")
}

func H_C01_SInt64() {
	tag := c01Tag()
	v := nondetI64("v")
	klen := verifConcretize(SizeOfTagKey(tag))
	vlen := verifConcretize(SizeOfZigZag(uint64(v)))
	buf := nondetBytesLen("buf", klen+vlen)
	e := NewEncoder(buf)
	e.EncodeSInt64(tag, v)
	d := c01Decoder(buf)
	c01Key(d, tag, WireTypeVarint)
	got, err := d.DecodeSInt64()
	verifAssert3(err == nil, got == v, d.Offset() == len(buf), "value and cursor")
	verifReach("end")
}

func H_C01_Fixed32() {
	tag := c01Tag()
	v := nondetU32("v")
	klen := verifConcretize(SizeOfTagKey(tag))
	buf := nondetBytesLen("buf", klen+4)
	e := NewEncoder(buf)
	e.EncodeFixed32(tag, v)
	d := c01Decoder(buf)
	c01Key(d, tag, WireTypeFixed32)
	got, err := d.DecodeFixed32()
	verifAssert3(err == nil, got == v, d.Offset() == len(buf), "value and cursor")
	verifReach("end")
}

func H_C01_Fixed64() {
	tag := c01Tag()
	v := nondetU64("v")
	klen := verifConcretize(SizeOfTagKey(tag))
	buf := nondetBytesLen("buf", klen+8)
	e := NewEncoder(buf)
	e.EncodeFixed64(tag, v)
	d := c01Decoder(buf)
	c01Key(d, tag, WireTypeFixed64)
	got, err := d.DecodeFixed64()
	verifAssert3(err == nil, got == v, d.Offset() == len(buf), "value and cursor")
	verifReach("end")
}

// floats are compared by bit pattern, so every NaN payload is a distinct value that must survive
func H_C01_Float32() {
	tag := c01Tag()
	bits := nondetU32("v")
	v := math.Float32frombits(bits)
	klen := verifConcretize(SizeOfTagKey(tag))
	buf := nondetBytesLen("buf", klen+4)
	e := NewEncoder(buf)
	e.EncodeFloat32(tag, v)
	d := c01Decoder(buf)
	c01Key(d, tag, WireTypeFixed32)
	got, err := d.DecodeFloat32()
	verifAssert3(err == nil, math.Float32bits(got) == bits, d.Offset() == len(buf), "value and cursor")
	verifReach("end")
}

func H_C01_Float64() {
	tag := c01Tag()
	bits := nondetU64("v")
	v := math.Float64frombits(bits)
	klen := verifConcretize(SizeOfTagKey(tag))
	buf := nondetBytesLen("buf", klen+8)
	e := NewEncoder(buf)
	e.EncodeFloat64(tag, v)
	d := c01Decoder(buf)
	c01Key(d, tag, WireTypeFixed64)
	got, err := d.DecodeFloat64()
	verifAssert3(err == nil, math.Float64bits(got) == bits, d.Offset() == len(buf), "value and cursor")
	verifReach("end")
}

// strings / bytes: symbolic length up to 2^20 (quick) or 2^31-1-16 (thorough), symbolic contents at every
// index; no unrolling (read-over-copy memory expressions, skolemised equality).
func c01MaxLen() int {
	if verifTier() == 1 {
		return 1<<28 + 64 // every length-prefix size up to 5 bytes; the native replays stay within memory
	}
	return 1 << 20
}

func H_C01_String() {
	tag := c01Tag()
	sb := nondetBytes("s", c01MaxLen())
	s := string(sb)
	klen := verifConcretize(SizeOfTagKey(tag))
	llen := verifConcretize(SizeOfVarint(uint64(len(s))))
	buf := make([]byte, klen+llen+len(s))
	e := NewEncoder(buf)
	e.EncodeString(tag, s)
	d := c01Decoder(buf)
	c01Key(d, tag, WireTypeLengthDelimited)
	got, err := d.DecodeString()
	verifAssert2(err == nil, d.Offset() == len(buf), "cursor")
	verifAssertBytesEq([]byte(got), sb, "value")
	verifReach("end")
}

func H_C01_Bytes() {
	tag := c01Tag()
	b := nondetBytes("b", c01MaxLen())
	klen := verifConcretize(SizeOfTagKey(tag))
	llen := verifConcretize(SizeOfVarint(uint64(len(b))))
	buf := make([]byte, klen+llen+len(b))
	e := NewEncoder(buf)
	e.EncodeBytes(tag, b)
	d := c01Decoder(buf)
	c01Key(d, tag, WireTypeLengthDelimited)
	got, err := d.DecodeBytes()
	verifAssert2(err == nil, d.Offset() == len(buf), "cursor")
	verifAssertBytesEq(got, b, "value")
	verifReach("end")
}

// ---- size helpers against the bytes the low-level writers produce (all 64 bits) ----

func H_C01_SizeVarint() {
	v := nondetU64("v")
	n := verifConcretize(SizeOfVarint(v))
	buf := nondetBytesLen("buf", n)
	w := EncodeVarint(buf, v)
	verifAssert(w == n, "EncodeVarint writes exactly SizeOfVarint bytes")
	got, rn, err := DecodeVarint(buf)
	verifAssert3(err == nil, got == v, rn == n, "DecodeVarint returns the value and its length")
	verifReach("end")
}

func H_C01_SizeZigZag64() {
	v := nondetI64("v")
	n := verifConcretize(SizeOfZigZag(uint64(v)))
	buf := nondetBytesLen("buf", n)
	w := EncodeZigZag64(buf, v)
	verifAssert(w == n, "EncodeZigZag64 writes exactly SizeOfZigZag bytes")
	got, rn, err := DecodeZigZag64(buf)
	verifAssert3(err == nil, got == v, rn == n, "DecodeZigZag64 returns the value and its length")
	verifReach("end")
}

func H_C01_SizeZigZag32() {
	v := nondetI32("v")
	n := verifConcretize(SizeOfZigZag(uint64(v)))
	buf := nondetBytesLen("buf", n)
	w := EncodeZigZag32(buf, v)
	verifAssert(w == n, "EncodeZigZag32 writes exactly SizeOfZigZag bytes")
	got, rn, err := DecodeZigZag32(buf)
	verifAssert3(err == nil, got == v, rn == n, "DecodeZigZag32 returns the value and its length")
	verifReach("end")
}

func H_C01_SizeTagKey() {
	tag := c01Tag()
	wt := nondetInt("wt")
	verifAssume(wt >= 0)
	verifAssume(wt <= 5)
	n := verifConcretize(SizeOfTagKey(tag))
	buf := nondetBytesLen("buf", n)
	w := EncodeTag(buf, tag, WireType(wt))
	verifAssert(w == n, "EncodeTag writes exactly SizeOfTagKey bytes")
	verifReach("end")
}

// ---- packed lists ----

func c01PackedN(maxQuick, maxThorough int) int {
	if verifTier() == 1 {
		return c01PackedRange(0, maxThorough)
	}
	return c01PackedRange(0, maxQuick)
}

func c01PackedRange(lo, hi int) int {
	n := nondetInt("n")
	verifAssume(n >= lo)
	verifAssume(n <= hi)
	return verifConcretize(n)
}

// c01PackedBuf sizes the buffer from the helpers only: nothing for an empty list, else key + len + payload
func c01PackedBuf(tag, n, payload int) []byte {
	if n == 0 {
		return nondetBytesLen("buf", 0)
	}
	klen := verifConcretize(SizeOfTagKey(tag))
	llen := verifConcretize(SizeOfVarint(uint64(payload)))
	return nondetBytesLen("buf", klen+llen+payload)
}

func c01PackedKey(d *Decoder, tag, n int) bool {
	if n == 0 {
		verifAssert(!d.More(), "an empty packed list writes nothing")
		return false
	}
	c01Key(d, tag, WireTypeLengthDelimited)
	return true
}

func H_C01_PackedBool() {
	tag := c01Tag()
	n := c01PackedN(40, 140)
	vs := make([]bool, n)
	for i := range vs {
		vs[i] = nondetBoolN("v", i)
	}
	buf := c01PackedBuf(tag, n, n)
	e := NewEncoder(buf)
	e.EncodePackedBool(tag, vs)
	d := c01Decoder(buf)
	if c01PackedKey(d, tag, n) {
		got, err := d.DecodePackedBool()
		verifAssert3(err == nil, len(got) == n, d.Offset() == len(buf), "count and cursor")
		for i := 0; i < n && i < len(got); i++ {
			verifAssert(got[i] == vs[i], "element")
		}
	}
	verifReach("end")
}

func H_C01_PackedUInt32() {
	tag := c01Tag()
	n := c01PackedN(2, 3)
	vs := make([]uint32, n)
	payload := 0
	for i := range vs {
		vs[i] = nondetU32N("v", i)
		payload += verifConcretize(SizeOfVarint(uint64(vs[i])))
	}
	buf := c01PackedBuf(tag, n, payload)
	e := NewEncoder(buf)
	e.EncodePackedUInt32(tag, vs)
	d := c01Decoder(buf)
	if c01PackedKey(d, tag, n) {
		got, err := d.DecodePackedUint32()
		verifAssert3(err == nil, len(got) == n, d.Offset() == len(buf), "count and cursor")
		for i := 0; i < n && i < len(got); i++ {
			verifAssert(got[i] == vs[i], "element")
		}
	}
	verifReach("end")
}

func H_C01_PackedUInt64() {
	tag := c01Tag()
	n := c01PackedN(1, 2)
	vs := make([]uint64, n)
	payload := 0
	for i := range vs {
		vs[i] = nondetU64N("v", i)
		payload += verifConcretize(SizeOfVarint(vs[i]))
	}
	buf := c01PackedBuf(tag, n, payload)
	e := NewEncoder(buf)
	e.EncodePackedUInt64(tag, vs)
	d := c01Decoder(buf)
	if c01PackedKey(d, tag, n) {
		got, err := d.DecodePackedUint64()
		verifAssert3(err == nil, len(got) == n, d.Offset() == len(buf), "count and cursor")
		for i := 0; i < n && i < len(got); i++ {
			verifAssert(got[i] == vs[i], "element")
		}
	}
	verifReach("end")
}

func H_C01_PackedInt32() {
	tag := c01Tag()
	n := c01PackedN(2, 3)
	vs := make([]int32, n)
	payload := 0
	for i := range vs {
		vs[i] = nondetI32N("v", i)
		payload += verifConcretize(SizeOfVarint(uint64(vs[i])))
	}
	buf := c01PackedBuf(tag, n, payload)
	e := NewEncoder(buf)
	e.EncodePackedInt32(tag, vs)
	d := c01Decoder(buf)
	if c01PackedKey(d, tag, n) {
		got, err := d.DecodePackedInt32()
		verifAssert3(err == nil, len(got) == n, d.Offset() == len(buf), "count and cursor")
		for i := 0; i < n && i < len(got); i++ {
			verifAssert(got[i] == vs[i], "element")
		}
	}
	verifReach("end")
}

func H_C01_PackedInt64() {
	tag := c01Tag()
	n := c01PackedN(1, 2)
	vs := make([]int64, n)
	payload := 0
	for i := range vs {
		vs[i] = nondetI64N("v", i)
		payload += verifConcretize(SizeOfVarint(uint64(vs[i])))
	}
	buf := c01PackedBuf(tag, n, payload)
	e := NewEncoder(buf)
	e.EncodePackedInt64(tag, vs)
	d := c01Decoder(buf)
	if c01PackedKey(d, tag, n) {
		got, err := d.DecodePackedInt64()
		verifAssert3(err == nil, len(got) == n, d.Offset() == len(buf), "count and cursor")
		for i := 0; i < n && i < len(got); i++ {
			verifAssert(got[i] == vs[i], "element")
		}
	}
	verifReach("end")
}

func H_C01_PackedSInt32() {
	tag := c01Tag()
	n := c01PackedN(2, 3)
	vs := make([]int32, n)
	payload := 0
	for i := range vs {
		vs[i] = nondetI32N("v", i)
		payload += verifConcretize(SizeOfZigZag(uint64(vs[i])))
	}
	buf := c01PackedBuf(tag, n, payload)
	e := NewEncoder(buf)
	e.EncodePackedSInt32(tag, vs)
	d := c01Decoder(buf)
	if c01PackedKey(d, tag, n) {
		got, err := d.DecodePackedSint32()
		verifAssert3(err == nil, len(got) == n, d.Offset() == len(buf), "count and cursor")
		for i := 0; i < n && i < len(got); i++ {
			verifAssert(got[i] == vs[i], "element")
		}
	}
	verifReach("end")
}

func H_C01_PackedSInt64() {
	tag := c01Tag()
	n := c01PackedN(1, 2)
	vs := make([]int64, n)
	payload := 0
	for i := range vs {
		vs[i] = nondetI64N("v", i)
		payload += verifConcretize(SizeOfZigZag(uint64(vs[i])))
	}
	buf := c01PackedBuf(tag, n, payload)
	e := NewEncoder(buf)
	e.EncodePackedSInt64(tag, vs)
	d := c01Decoder(buf)
	if c01PackedKey(d, tag, n) {
		got, err := d.DecodePackedSint64()
		verifAssert3(err == nil, len(got) == n, d.Offset() == len(buf), "count and cursor")
		for i := 0; i < n && i < len(got); i++ {
			verifAssert(got[i] == vs[i], "element")
		}
	}
	verifReach("end")
}

func H_C01_PackedFixed32() {
	tag := c01Tag()
	n := c01PackedN(40, 140)
	vs := make([]uint32, n)
	for i := range vs {
		vs[i] = nondetU32N("v", i)
	}
	buf := c01PackedBuf(tag, n, 4*n)
	e := NewEncoder(buf)
	e.EncodePackedFixed32(tag, vs)
	d := c01Decoder(buf)
	if c01PackedKey(d, tag, n) {
		got, err := d.DecodePackedFixed32()
		verifAssert3(err == nil, len(got) == n, d.Offset() == len(buf), "count and cursor")
		for i := 0; i < n && i < len(got); i++ {
			verifAssert(got[i] == vs[i], "element")
		}
	}
	verifReach("end")
}

func H_C01_PackedFixed64() {
	tag := c01Tag()
	n := c01PackedN(40, 140)
	vs := make([]uint64, n)
	for i := range vs {
		vs[i] = nondetU64N("v", i)
	}
	buf := c01PackedBuf(tag, n, 8*n)
	e := NewEncoder(buf)
	e.EncodePackedFixed64(tag, vs)
	d := c01Decoder(buf)
	if c01PackedKey(d, tag, n) {
		got, err := d.DecodePackedFixed64()
		verifAssert3(err == nil, len(got) == n, d.Offset() == len(buf), "count and cursor")
		for i := 0; i < n && i < len(got); i++ {
			verifAssert(got[i] == vs[i], "element")
		}
	}
	verifReach("end")
}

// the decoder has no signed fixed readers: sfixed lists are read back with the unsigned reader and reinterpreted
func H_C01_PackedSFixed32() {
	tag := c01Tag()
	n := c01PackedN(40, 140)
	vs := make([]int32, n)
	for i := range vs {
		vs[i] = nondetI32N("v", i)
	}
	buf := c01PackedBuf(tag, n, 4*n)
	e := NewEncoder(buf)
	e.EncodePackedSFixed32(tag, vs)
	d := c01Decoder(buf)
	if c01PackedKey(d, tag, n) {
		got, err := d.DecodePackedFixed32()
		verifAssert3(err == nil, len(got) == n, d.Offset() == len(buf), "count and cursor")
		for i := 0; i < n && i < len(got); i++ {
			verifAssert(int32(got[i]) == vs[i], "element")
		}
	}
	verifReach("end")
}

func H_C01_PackedSFixed64() {
	tag := c01Tag()
	n := c01PackedN(40, 140)
	vs := make([]int64, n)
	for i := range vs {
		vs[i] = nondetI64N("v", i)
	}
	buf := c01PackedBuf(tag, n, 8*n)
	e := NewEncoder(buf)
	e.EncodePackedSFixed64(tag, vs)
	d := c01Decoder(buf)
	if c01PackedKey(d, tag, n) {
		got, err := d.DecodePackedFixed64()
		verifAssert3(err == nil, len(got) == n, d.Offset() == len(buf), "count and cursor")
		for i := 0; i < n && i < len(got); i++ {
			verifAssert(int64(got[i]) == vs[i], "element")
		}
	}
	verifReach("end")
}

func H_C01_PackedFloat32() {
	tag := c01Tag()
	n := c01PackedN(40, 140)
	vs := make([]float32, n)
	for i := range vs {
		vs[i] = math.Float32frombits(nondetU32N("v", i))
	}
	buf := c01PackedBuf(tag, n, 4*n)
	e := NewEncoder(buf)
	e.EncodePackedFloat32(tag, vs)
	d := c01Decoder(buf)
	if c01PackedKey(d, tag, n) {
		got, err := d.DecodePackedFloat32()
		verifAssert3(err == nil, len(got) == n, d.Offset() == len(buf), "count and cursor")
		for i := 0; i < n && i < len(got); i++ {
			verifAssert(math.Float32bits(got[i]) == math.Float32bits(vs[i]), "element")
		}
	}
	verifReach("end")
}

func H_C01_PackedFloat64() {
	tag := c01Tag()
	n := c01PackedN(40, 140)
	vs := make([]float64, n)
	for i := range vs {
		vs[i] = math.Float64frombits(nondetU64N("v", i))
	}
	buf := c01PackedBuf(tag, n, 8*n)
	e := NewEncoder(buf)
	e.EncodePackedFloat64(tag, vs)
	d := c01Decoder(buf)
	if c01PackedKey(d, tag, n) {
		got, err := d.DecodePackedFloat64()
		verifAssert3(err == nil, len(got) == n, d.Offset() == len(buf), "count and cursor")
		for i := 0; i < n && i < len(got); i++ {
			verifAssert(math.Float64bits(got[i]) == math.Float64bits(vs[i]), "element")
		}
	}
	verifReach("end")
}

// ---- long packed varint lists: the payload crosses the 1-byte / 2-byte length-prefix boundary (127/128) ----
//
// All elements are taken from one size class (k bytes each), so the payload is k*n on every path and the list
// needs no per-element case split; n is 128/k or 128/k+1 (k = 10: 120 and 130 bytes; k = 5: 125 and 130 bytes).

func c01LongN(k int) int {
	n := nondetInt("n")
	verifAssume(n == 128/k || n == 128/k+1)
	return verifConcretize(n)
}

func H_C01_PackedLong_Int64() {
	tag := c01Tag()
	n := c01LongN(10)
	vs := make([]int64, n)
	for i := range vs {
		vs[i] = nondetI64N("v", i)
		verifAssume(vs[i] < 0) // ten bytes
	}
	buf := c01PackedBuf(tag, n, 10*n)
	NewEncoder(buf).EncodePackedInt64(tag, vs)
	d := c01Decoder(buf)
	c01PackedKey(d, tag, n)
	got, err := d.DecodePackedInt64()
	verifAssert3(err == nil, len(got) == n, d.Offset() == len(buf), "count and cursor")
	for i := 0; i < n && i < len(got); i++ {
		verifAssert(got[i] == vs[i], "element")
	}
	verifReach("end")
}

func H_C01_PackedLong_Int32() {
	tag := c01Tag()
	n := c01LongN(10)
	vs := make([]int32, n)
	for i := range vs {
		vs[i] = nondetI32N("v", i)
		verifAssume(vs[i] < 0) // sign-extended: ten bytes
	}
	buf := c01PackedBuf(tag, n, 10*n)
	NewEncoder(buf).EncodePackedInt32(tag, vs)
	d := c01Decoder(buf)
	c01PackedKey(d, tag, n)
	got, err := d.DecodePackedInt32()
	verifAssert3(err == nil, len(got) == n, d.Offset() == len(buf), "count and cursor")
	for i := 0; i < n && i < len(got); i++ {
		verifAssert(got[i] == vs[i], "element")
	}
	verifReach("end")
}

func H_C01_PackedLong_UInt64() {
	tag := c01Tag()
	n := c01LongN(10)
	vs := make([]uint64, n)
	for i := range vs {
		vs[i] = nondetU64N("v", i)
		verifAssume(vs[i] >= 1<<63)
	}
	buf := c01PackedBuf(tag, n, 10*n)
	NewEncoder(buf).EncodePackedUInt64(tag, vs)
	d := c01Decoder(buf)
	c01PackedKey(d, tag, n)
	got, err := d.DecodePackedUint64()
	verifAssert3(err == nil, len(got) == n, d.Offset() == len(buf), "count and cursor")
	for i := 0; i < n && i < len(got); i++ {
		verifAssert(got[i] == vs[i], "element")
	}
	verifReach("end")
}

func H_C01_PackedLong_UInt32() {
	tag := c01Tag()
	n := c01LongN(5)
	vs := make([]uint32, n)
	for i := range vs {
		vs[i] = nondetU32N("v", i)
		verifAssume(vs[i] >= 1<<28) // five bytes
		verifAssume(verifConcretize(SizeOfVarint(uint64(vs[i]))) == 5)
	}
	buf := c01PackedBuf(tag, n, 5*n)
	NewEncoder(buf).EncodePackedUInt32(tag, vs)
	d := c01Decoder(buf)
	c01PackedKey(d, tag, n)
	got, err := d.DecodePackedUint32()
	verifAssert3(err == nil, len(got) == n, d.Offset() == len(buf), "count and cursor")
	for i := 0; i < n && i < len(got); i++ {
		verifAssert(got[i] == vs[i], "element")
	}
	verifReach("end")
}

func H_C01_PackedLong_SInt32() {
	tag := c01Tag()
	n := c01LongN(5)
	vs := make([]int32, n)
	for i := range vs {
		vs[i] = nondetI32N("v", i)
		if i%2 == 0 { // zig-zag value >= 2^28: five bytes
			verifAssume(vs[i] >= 1<<27)
		} else {
			verifAssume(vs[i] < -(1 << 27))
		}
		verifAssume(verifConcretize(SizeOfZigZag(uint64(vs[i]))) == 5)
	}
	buf := c01PackedBuf(tag, n, 5*n)
	NewEncoder(buf).EncodePackedSInt32(tag, vs)
	d := c01Decoder(buf)
	c01PackedKey(d, tag, n)
	got, err := d.DecodePackedSint32()
	verifAssert3(err == nil, len(got) == n, d.Offset() == len(buf), "count and cursor")
	for i := 0; i < n && i < len(got); i++ {
		verifAssert(got[i] == vs[i], "element")
	}
	verifReach("end")
}

func H_C01_PackedLong_SInt64() {
	tag := c01Tag()
	n := c01LongN(10)
	vs := make([]int64, n)
	for i := range vs {
		vs[i] = nondetI64N("v", i)
		if i%2 == 0 { // zig-zag value >= 2^63: ten bytes
			verifAssume(vs[i] >= 1<<62)
		} else {
			verifAssume(vs[i] < -(1 << 62))
		}
		verifAssume(verifConcretize(SizeOfZigZag(uint64(vs[i]))) == 10)
	}
	buf := c01PackedBuf(tag, n, 10*n)
	NewEncoder(buf).EncodePackedSInt64(tag, vs)
	d := c01Decoder(buf)
	c01PackedKey(d, tag, n)
	got, err := d.DecodePackedSint64()
	verifAssert3(err == nil, len(got) == n, d.Offset() == len(buf), "count and cursor")
	for i := 0; i < n && i < len(got); i++ {
		verifAssert(got[i] == vs[i], "element")
	}
	verifReach("end")
}
