//go:build verif

package p2

import (
	"google.golang.org/protobuf/encoding/protowire"
)

// proto2 composites: optional/repeated messages and required fields (C04, C05, C09, C17).

func pbBytes1(name string) []byte {
	b := nondetBytes(name, 1)
	return b[:verifConcretize(len(b))]
}

// ---- Leaf (proto2: explicit presence for both fields) ----

func mkLeaf(pfx string) *Leaf {
	l := &Leaf{}
	if nondetBool(pfx + "has_a") {
		v := nondetI32(pfx + "a")
		verifAssume(v >= 0)
		verifAssume(v < 64)
		l.A = &v
	}
	if nondetBool(pfx + "has_s") {
		s := string(pbBytes1(pfx + "s"))
		l.S = &s
	}
	return l
}

func expLeaf(b []byte, l *Leaf) []byte {
	if l.A != nil {
		b = protowire.AppendVarint(protowire.AppendTag(b, 1, protowire.VarintType), uint64(int64(*l.A)))
	}
	if l.S != nil {
		b = protowire.AppendString(protowire.AppendTag(b, 2, protowire.BytesType), *l.S)
	}
	return b
}

func expLeafField(b []byte, num protowire.Number, l *Leaf) []byte {
	b = protowire.AppendTag(b, num, protowire.BytesType)
	return protowire.AppendBytes(b, expLeaf(make([]byte, 0, 64), l))
}

// ---- Msgs ----

func mkMsgs(pfx string) *Msgs {
	m := &Msgs{}
	if nondetBool(pfx + "has_m") {
		m.M = mkLeaf(pfx + "m_")
	}
	n := pbCount(pfx+"nrm", 1, 2)
	for i := 0; i < n; i++ {
		if i == 0 {
			m.Rm = append(m.Rm, mkLeaf(pfx+"rm0_"))
		} else {
			m.Rm = append(m.Rm, mkLeaf(pfx+"rm1_"))
		}
	}
	if nondetBool(pfx + "has_tail") {
		v := nondetI32(pfx + "tail")
		verifAssume(v >= 0)
		verifAssume(v < 64)
		m.Tail = &v
	}
	return m
}

func expMsgs(b []byte, m *Msgs) []byte {
	if m.M != nil {
		b = expLeafField(b, 1, m.M)
	}
	for _, l := range m.Rm {
		b = expLeafField(b, 2, l)
	}
	if m.Tail != nil {
		b = protowire.AppendVarint(protowire.AppendTag(b, 3, protowire.VarintType), uint64(int64(*m.Tail)))
	}
	return b
}

func H_C04_Msgs() { pbC04(mkMsgs("")) }
func H_C05_Msgs() { m := mkMsgs(""); pbC05(m, expMsgs(pbBuf(), m)) }
func H_C09_Msgs() {
	m := &Msgs{M: mkLeaf("a_")}
	_ = m.Size()
	m2 := mkMsgs("b_")
	m.M, m.Rm, m.Tail = m2.M, m2.Rm, m2.Tail
	pbC09(m, expMsgs(pbBuf(), m2))
}

// ---- C17: required fields ----

func mkReq1(pfx string) (*Req1, bool) {
	m := &Req1{}
	has := nondetBool(pfx + "has_a")
	if has {
		v := nondetI32(pfx + "a")
		m.A = &v
	}
	return m, has
}

func expReq1(b []byte, m *Req1) []byte {
	if m.A != nil {
		b = protowire.AppendVarint(protowire.AppendTag(b, 1, protowire.VarintType), uint64(int64(*m.A)))
	}
	return b
}

// Marshal returns an error exactly when a required field is unset - the all-unset message included
func H_C17_Marshal_Req1() {
	m, complete := mkReq1("")
	out, err := m.Marshal()
	verifAssert((err != nil) == !complete, "Marshal reports an error iff a required field is unset (the empty message included)")
	if complete {
		verifAssertCanonical(m, out, expReq1(pbBuf(), m), "a complete message marshals to its canonical bytes")
		buf := make([]byte, m.Size())
		verifAssert(m.MarshalTo(buf) == nil, "MarshalTo of a complete message succeeds")
	} else {
		verifAssert(m.MarshalTo(make([]byte, 16)) != nil, "MarshalTo reports the missing required field")
	}
	verifReach("end")
}

func mkReq2(pfx string) (*Req2, bool) {
	m := &Req2{}
	hs, hl, hb := nondetBool(pfx+"has_s"), nondetBool(pfx+"has_l"), nondetBool(pfx+"has_b")
	if hs {
		s := string(pbBytes1(pfx + "s"))
		m.S = &s
	}
	if hl {
		m.L = mkLeaf(pfx + "l_")
	}
	if nondetBool(pfx + "has_o") {
		v := nondetI32(pfx + "o")
		verifAssume(v >= 0)
		verifAssume(v < 64)
		m.O = &v
	}
	if hb {
		m.B = pbBytesNonNil(pfx + "b")
	}
	return m, verifAnd(verifAnd(hs, hl), hb)
}

func expReq2(b []byte, m *Req2) []byte {
	if m.S != nil {
		b = protowire.AppendString(protowire.AppendTag(b, 1, protowire.BytesType), *m.S)
	}
	if m.L != nil {
		b = expLeafField(b, 2, m.L)
	}
	if m.O != nil {
		b = protowire.AppendVarint(protowire.AppendTag(b, 3, protowire.VarintType), uint64(int64(*m.O)))
	}
	if m.B != nil {
		b = protowire.AppendBytes(protowire.AppendTag(b, 4, protowire.BytesType), m.B)
	}
	return b
}

func H_C17_Marshal_Req2() {
	m, complete := mkReq2("")
	out, err := m.Marshal()
	verifAssert((err != nil) == !complete, "Marshal reports an error iff a required field is unset")
	if err == nil {
		verifAssertCanonical(m, out, expReq2(pbBuf(), m), "a complete message marshals to its canonical bytes")
	}
	verifReach("end")
}

// required fields of nested messages reached while marshaling
func mkReqNest(pfx string) (*ReqNest, bool) {
	m := &ReqNest{}
	ok := true
	if nondetBool(pfx + "has_child") {
		c, cok := mkReq1(pfx + "c_")
		m.Child = c
		ok = verifAnd(ok, cok)
	}
	n := pbCount(pfx+"nkids", 1, 2)
	for i := 0; i < n; i++ {
		var k *Req1
		var kok bool
		if i == 0 {
			k, kok = mkReq1(pfx + "k0_")
		} else {
			k, kok = mkReq1(pfx + "k1_")
		}
		m.Kids = append(m.Kids, k)
		ok = verifAnd(ok, kok)
	}
	if nondetBool(pfx + "has_x") {
		v := nondetI32(pfx + "x")
		verifAssume(v >= 0)
		verifAssume(v < 64)
		m.X = &v
	}
	return m, ok
}

func expReqNest(b []byte, m *ReqNest) []byte {
	if m.Child != nil {
		b = protowire.AppendBytes(protowire.AppendTag(b, 1, protowire.BytesType), expReq1(make([]byte, 0, 16), m.Child))
	}
	for _, k := range m.Kids {
		b = protowire.AppendBytes(protowire.AppendTag(b, 2, protowire.BytesType), expReq1(make([]byte, 0, 16), k))
	}
	if m.X != nil {
		b = protowire.AppendVarint(protowire.AppendTag(b, 3, protowire.VarintType), uint64(int64(*m.X)))
	}
	return b
}

func H_C17_Marshal_ReqNest() {
	m, complete := mkReqNest("")
	out, err := m.Marshal()
	verifAssert((err != nil) == !complete, "Marshal reports an error iff a required field of a nested message reached while marshaling is unset")
	if err == nil {
		verifAssertCanonical(m, out, expReqNest(pbBuf(), m), "a complete message marshals to its canonical bytes")
	}
	verifReach("end")
}

// Unmarshal: bytes that lack a required field are an error (the empty input included); complete bytes are accepted
func H_C17_Unmarshal_Req1() {
	src, complete := mkReq1("")
	in := expReq1(pbBuf(), src)
	extra := nondetBool("unknown_field") // an unknown field does not stand in for a required one
	if extra {
		in = protowire.AppendVarint(protowire.AppendTag(in, 9, protowire.VarintType), 1)
	}
	m := &Req1{}
	err := m.Unmarshal(in)
	verifAssert((err != nil) == !complete, "Unmarshal reports an error iff a required field is missing (the empty input included)")
	if err == nil {
		verifAssert2(m.A != nil, m.A == nil || *m.A == *src.A, "the required field is decoded")
	}
	verifReach("end")
}

func H_C17_Unmarshal_Req2() {
	src, complete := mkReq2("")
	in := expReq2(pbBuf(), src)
	m := &Req2{}
	err := m.Unmarshal(in)
	verifAssert((err != nil) == !complete, "Unmarshal reports an error iff a required field is missing")
	verifReach("end")
}

func H_C17_Unmarshal_ReqNest() {
	src, complete := mkReqNest("")
	in := expReqNest(pbBuf(), src)
	m := &ReqNest{}
	err := m.Unmarshal(in)
	verifAssert((err != nil) == !complete, "Unmarshal reports an error iff a nested message lacks a required field")
	verifReach("end")
}


// ======================================================================================================
// C08 on proto2 messages (required fields, declared packing) and on extendable messages

func H_C08_TInt32()    { pbC08(&TInt32{}, c08N(5, 7)) }
func H_C08_TSint64()   { pbC08(&TSint64{}, c08N(5, 7)) }
func H_C08_TSfixed32() { pbC08(&TSfixed32{}, c08N(6, 8)) }
func H_C08_TDouble()   { pbC08(&TDouble{}, c08N(6, 8)) }
func H_C08_TBool()     { pbC08(&TBool{}, c08N(5, 7)) }
func H_C08_TEnum()     { pbC08(&TEnum{}, c08N(5, 7)) }
func H_C08_TString()   { pbC08(&TString{}, c08N(5, 7)) }
func H_C08_TBytes()    { pbC08(&TBytes{}, c08N(5, 7)) }
func H_C08_Msgs()      { pbC08(&Msgs{}, c08N(5, 6)) }
func H_C08_Req2()      { pbC08(&Req2{}, c08N(5, 6)) }
func H_C08_ReqNest()   { pbC08(&ReqNest{}, c08N(5, 6)) }

func H_C08_XInt32()    { xsetup_XInt32(); pbC08(&XInt32{}, c08N(5, 7)) }
func H_C08_XSint64()   { xsetup_XSint64(); pbC08(&XSint64{}, c08N(5, 7)) }
func H_C08_XBool()     { xsetup_XBool(); pbC08(&XBool{}, c08N(5, 7)) }
func H_C08_XSfixed32() { xsetup_XSfixed32(); pbC08(&XSfixed32{}, c08N(6, 8)) }
func H_C08_XDouble()   { xsetup_XDouble(); pbC08(&XDouble{}, c08N(6, 8)) }
func H_C08_XString()   { xsetup_XString(); pbC08(&XString{}, c08N(5, 7)) }
func H_C08_XBytes()    { xsetup_XBytes(); pbC08(&XBytes{}, c08N(5, 7)) }
func H_C08_XAll()      { xsetup_XAll(); pbC08(&XAll{}, c08N(5, 6)) }

func H_C08_Len_TInt32()    { pbC08Len(&TInt32{}) }
func H_C08_Len_TSfixed32() { pbC08Len(&TSfixed32{}) }
func H_C08_Len_TDouble()   { pbC08Len(&TDouble{}) }
func H_C08_Len_TString()   { pbC08Len(&TString{}) }
func H_C08_Len_TBytes()    { pbC08Len(&TBytes{}) }
func H_C08_Len_Msgs()      { pbC08Len(&Msgs{}) }
func H_C08_Len_Req2()      { pbC08Len(&Req2{}) }
func H_C08_Len_ReqNest()   { pbC08Len(&ReqNest{}) }
func H_C08_Len_XAll()      { xsetup_XAll(); pbC08LenIn(&XAll{}, 100, 101) }
func H_C08_Len_XAllM()     { xsetup_XAll(); pbC08LenIn(&XAll{}, 150, 150) }
