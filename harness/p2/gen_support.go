//go:build verif

// Code generated from /verif/harness/pbsupport.go.tmpl by /verif/corpus/mkcorpus.py. DO NOT EDIT.

package p2

import (
	"sync"

	"github.com/CrowdStrike/csproto"
	"github.com/CrowdStrike/csproto/lazyproto"

	"google.golang.org/protobuf/encoding/protowire"
	"google.golang.org/protobuf/proto"
)

// pbMsg is a generated message type with fast-marshal methods
type pbMsg interface {
	proto.Message
	Size() int
	Marshal() ([]byte, error)
	MarshalTo([]byte) error
	Unmarshal([]byte) error
}

func pbBuf() []byte { return make([]byte, 0, 1024) }

// symbolic byte strings: length case-split to a concrete value per path (<= 2 quick, <= 3 thorough), contents symbolic
func pbSmax() int { return 2 + verifTier() }

func pbBytes(name string) []byte {
	b := nondetBytes(name, pbSmax())
	return b[:verifConcretize(len(b))]
}

func pbBytesN(name string, i int) []byte {
	b := nondetBytesN(name, i, pbSmax())
	return b[:verifConcretize(len(b))]
}

// pbBytesNonNil: a set (non-nil) bytes value, possibly empty
func pbBytesNonNil(name string) []byte {
	b := pbBytes(name)
	out := make([]byte, len(b))
	copy(out, b)
	return out
}

// pbCount: symbolic element count in [0, quick] / [0, thorough], case-split
func pbCount(name string, quick, thorough int) int {
	n := nondetInt(name)
	verifAssume(n >= 0)
	if verifTier() == 1 {
		verifAssume(n <= thorough)
	} else {
		verifAssume(n <= quick)
	}
	return verifConcretize(n)
}

func pbCountIn(name string, lo, hi int) int {
	n := nondetInt(name)
	verifAssume(n >= lo)
	verifAssume(n <= hi)
	return verifConcretize(n)
}

// C04: Size, Marshal and MarshalTo agree, nothing panics
func pbC04(m pbMsg) {
	sz := verifConcretize(m.Size())
	verifAssert(sz >= 0, "Size is non-negative")
	buf := nondetBytesLen("buf", sz) // symbolic initial contents: bytes MarshalTo leaves unwritten stay arbitrary
	err := m.MarshalTo(buf)
	verifAssert(err == nil, "MarshalTo into a buffer of Size() bytes succeeds")
	out, err := m.Marshal()
	verifAssert2(err == nil, len(out) == sz, "len(Marshal()) equals Size()")
	verifAssertBytesEq(buf, out, "MarshalTo writes exactly Size() bytes, the same bytes Marshal returns")
	verifReach("end")
}

// C05: the marshaled bytes are the canonical encoding of the message (the reference runtime decides on replay)
func pbC05(m pbMsg, exp []byte) {
	out, err := m.Marshal()
	verifAssert(err == nil, "Marshal succeeds")
	verifAssertCanonical(m, out, exp, "Marshal output decodes (reference runtime) to an equal message with identical presence")
	verifReach("end")
}

// C09: Marshal depends only on the current contents, whatever an earlier Size() left in the cache
func pbC09(m pbMsg, expCurrent []byte) {
	out, err := m.Marshal()
	verifAssert(err == nil, "Marshal succeeds after a mutation")
	verifAssertCanonical(m, out, expCurrent, "Marshal returns the bytes of the current contents (not of the contents a cached size was computed from)")
	// MarshalTo into a reused scratch buffer (arbitrary previous contents) writes those same bytes
	buf := nondetBytesLen("scratch", verifConcretize(m.Size()))
	err = m.MarshalTo(buf)
	verifAssert(err == nil, "MarshalTo into Size() bytes succeeds after a mutation")
	verifAssertBytesEq(buf, out, "MarshalTo into a reused buffer writes the bytes of the current contents, whatever the buffer held")
	verifReach("end")
}

// pbUnknown builds one unknown field with a symbolic wire type among the four supported ones and a symbolic
// payload. The first unknown field (i == 1) takes any field number in [1, 2^29-1] that the message does not
// define (all key sizes, e.g. 16 and 2048), the others a number in [100, 1000].
func pbUnknown(i int, defined ...int) []byte {
	num := nondetIntN("unum", i)
	if i == 1 {
		verifAssume(num >= 1)
		verifAssume(num <= 536870911)
	} else {
		verifAssume(num >= 100)
		verifAssume(num <= 1000)
	}
	for _, d := range defined {
		verifAssume(num != d)
	}
	return pbUnknownNum(i, num)
}

// pbUnknownNum: one unknown field with the given (symbolic or concrete) number, symbolic wire type and payload
func pbUnknownNum(i int, num int) []byte {
	wt := nondetIntN("uwt", i)
	verifAssume(wt == 0 || wt == 1 || wt == 2 || wt == 5)
	if i != 1 && verifTier() == 0 {
		verifAssume(wt == 0 || wt == 2) // quick: the second unknown field is a varint or length-delimited one
	}
	b := make([]byte, 0, 32)
	switch verifConcretize(wt) {
	case 0:
		v := nondetU64N("uv", i)
		verifAssume(v < 1<<7)
		b = protowire.AppendVarint(protowire.AppendTag(b, protowire.Number(num), protowire.VarintType), v)
	case 1:
		b = protowire.AppendFixed64(protowire.AppendTag(b, protowire.Number(num), protowire.Fixed64Type), nondetU64N("uv", i))
	case 2:
		pl := nondetBytesN("up", i, 1)
		pl = pl[:verifConcretize(len(pl))]
		b = protowire.AppendBytes(protowire.AppendTag(b, protowire.Number(num), protowire.BytesType), pl)
	default:
		b = protowire.AppendFixed32(protowire.AppendTag(b, protowire.Number(num), protowire.Fixed32Type), nondetU32N("uv32", i))
	}
	return b
}

// C07: after Unmarshal, Size accounts for the unknown fields and Marshal re-emits them byte for byte
// (canonical order: known fields, then the unknown fields in the order they arrived)
func pbC07(m pbMsg, want []byte) {
	out, err := m.Marshal()
	verifAssert(err == nil, "Marshal succeeds")
	verifAssert(m.Size() == len(want), "Size accounts for the unknown fields")
	verifAssertCanonical(m, out, want, "unknown fields are re-emitted byte for byte by the next Marshal")
	verifReach("end")
}

// C09, concurrent clause: Size/Marshal/MarshalTo on a message nobody mutates write nothing into it except the
// atomically stored size cache (thread-modular ownership obligation: everything reachable from the message is
// shared), and repeated calls return the same bytes. Natively: 8 goroutines under the race detector.
func pbC09Own(m pbMsg) {
	if verifNative() {
		// the expected bytes come from a clone, so that the goroutines below start on a message whose size cache
		// has never been written (a message fresh from construction / Unmarshal / Clone)
		first, err := proto.Clone(m).(pbMsg).Marshal()
		verifAssert(err == nil, "native: Marshal succeeds")
		var wg sync.WaitGroup
		bad := make(chan string, 16)
		for g := 0; g < 8; g++ {
			wg.Add(1)
			go func() {
				defer wg.Done()
				for i := 0; i < 200; i++ {
					n := m.Size()
					b, err := m.Marshal()
					buf := make([]byte, n)
					err2 := m.MarshalTo(buf)
					if err != nil || err2 != nil || string(b) != string(first) || string(buf) != string(first) {
						select {
						case bad <- "concurrent Marshal returned different bytes":
						default:
						}
						return
					}
				}
			}()
		}
		wg.Wait()
		close(bad)
		for b := range bad {
			verifAssert(false, "native: "+b)
		}
		return
	}
	verifShareRoot(m)
	sz := m.Size()
	out, err := m.Marshal()
	verifAssert2(err == nil, len(out) == sz, "Marshal")
	buf := make([]byte, sz)
	verifAssert(m.MarshalTo(buf) == nil, "MarshalTo")
	out2, err := m.Marshal()
	verifAssert(err == nil, "second Marshal")
	verifAssertBytesEq(out, out2, "every call on an unmutated message returns the same bytes")
	verifAssertBytesEq(out, buf, "MarshalTo writes the same bytes")
	verifReach("end")
}

// pbC10Prelude: the process has used other decoders before the safe-mode Unmarshal under test - a lazy decode
// (which runs csproto.Decoder in fast mode internally), a fast-mode csproto.Decoder, and results handed back to
// their pools. Whatever state those leave behind (pooled objects, package-level caches) must not turn a later
// safe-mode decode into an aliasing one.
func pbC10Prelude() {
	warm := []byte{0x0a, 0x01, 'x', 0x10, 0x07}
	res, err := lazyproto.Decode(warm, lazyproto.NewDef(1, 2))
	if err == nil {
		_ = res.Close()
	}
	d := csproto.NewDecoder(warm)
	d.SetMode(csproto.DecoderModeFast)
	_, _, _ = d.DecodeTag()
	_, _ = d.DecodeString()
}

// C08: totality on arbitrary bytes, bounded allocation, and agreement with the reference runtime whenever both accept
func pbC08(m pbMsg, nmax int) {
	p := nondetBytes("p", nmax)
	verifAllocLimit(8*len(p) + 64)
	err := m.Unmarshal(p)
	if err == nil {
		// differential clause, decided by the real reference runtime on the witness of every accepting path
		verifAssertAgreesIfRefAccepts(m, p, "native: both the generated Unmarshal and the reference runtime accept the input, but decode different messages")
	}
	verifReach("end")
}

// corrupted length prefixes: the key of a field (numbers 1..6 cover O/R/U of every kind message and the fields of the
// composites) with the length-delimited wire type, then an arbitrary - possibly over-long or overflowing - varint
// as its declared length, then a short arbitrary tail
func pbC08Len(m pbMsg) { pbC08LenIn(m, 1, 6) }

func pbC08LenIn(m pbMsg, lo, hi int) {
	num := nondetInt("field")
	verifAssume(num >= lo)
	verifAssume(num <= hi)
	num = verifConcretize(num)
	lp := nondetBytes("len", 10)
	if verifTier() == 0 {
		verifAssume(len(lp) <= 2 || len(lp) >= 9)
	}
	lp = lp[:verifConcretize(len(lp))]
	// one varint: continuation bits on all bytes but the last (the tenth byte is arbitrary: overflowing and
	// unterminated prefixes included)
	for i := range lp {
		if i < len(lp)-1 {
			verifAssume(lp[i] >= 0x80)
		} else if i < 9 {
			verifAssume(lp[i] < 0x80)
		}
	}
	tail := nondetBytes("tail", 1+2*verifTier())
	tail = tail[:verifConcretize(len(tail))]
	p := protowire.AppendTag(make([]byte, 0, 32), protowire.Number(num), protowire.BytesType)
	p = append(p, lp...)
	p = append(p, tail...)
	verifAllocLimit(8*len(p) + 64)
	err := m.Unmarshal(p)
	if err == nil {
		verifAssertAgreesIfRefAccepts(m, p, "native: both the generated Unmarshal and the reference runtime accept the input, but decode different messages")
	}
	verifReach("end")
}

func c08N(q, t int) int {
	if verifTier() == 1 {
		return t
	}
	return q
}

