//go:build verif

package p3

import (
	"math"

	"google.golang.org/protobuf/encoding/protowire"
)

// Composite messages of the proto3 corpus: nested / repeated / recursive messages, oneof, maps, a multi-field
// message. mk* build bounded symbolic values, exp* append the canonical encoding (spec-derived, written with
// the protowire reference and validated against proto.Marshal on every replayed witness).

// ---- Leaf ----

func mkLeaf(pfx string, full bool) *Leaf {
	l := &Leaf{}
	l.A = nondetI32(pfx + "a")
	if !full {
		verifAssume(l.A >= 0)
		verifAssume(l.A < 64)
	}
	if full {
		l.S = string(pbBytes(pfx + "s"))
	} else {
		l.S = string(pbBytes1(pfx + "s"))
	}
	return l
}

// pbBytes1: symbolic byte string of length 0 or 1
func pbBytes1(name string) []byte {
	b := nondetBytes(name, 1)
	return b[:verifConcretize(len(b))]
}

func expLeaf(b []byte, l *Leaf) []byte {
	if l.A != 0 {
		b = protowire.AppendTag(b, 1, protowire.VarintType)
		b = protowire.AppendVarint(b, uint64(int64(l.A)))
	}
	if len(l.S) > 0 {
		b = protowire.AppendTag(b, 2, protowire.BytesType)
		b = protowire.AppendString(b, l.S)
	}
	return b
}

func expLeafField(b []byte, num protowire.Number, l *Leaf) []byte {
	b = protowire.AppendTag(b, num, protowire.BytesType)
	return protowire.AppendBytes(b, expLeaf(make([]byte, 0, 64), l))
}

// ---- Msgs: singular message (nil / empty / set), repeated message (empty elements included), scalar tail ----

// what = 0: only M symbolic (nil / empty / any Leaf); 1: only Rm (0..2 elements, empty ones included);
// 2: everything, small values
func mkMsgs(pfx string, what int) *Msgs {
	m := &Msgs{}
	if what != 1 && nondetBool(pfx+"has_m") {
		m.M = mkLeaf(pfx+"m_", what == 0)
	}
	if what != 0 {
		n := pbCount(pfx+"nrm", 2, 3)
		if what == 2 && n > 1 {
			n = 1
		}
		for i := 0; i < n; i++ {
			switch i {
			case 0:
				m.Rm = append(m.Rm, mkLeaf(pfx+"rm0_", false))
			case 1:
				m.Rm = append(m.Rm, mkLeaf(pfx+"rm1_", false))
			default:
				m.Rm = append(m.Rm, mkLeaf(pfx+"rm2_", false))
			}
		}
	}
	if what == 2 {
		m.Tail = nondetI32(pfx + "tail")
		verifAssume(m.Tail >= 0)
		verifAssume(m.Tail < 64)
	}
	return m
}

func expMsgs(b []byte, m *Msgs) []byte {
	if m.M != nil {
		b = expLeafField(b, 1, m.M)
	}
	for _, l := range m.Rm {
		b = expLeafField(b, 2, l)
	}
	if m.Tail != 0 {
		b = protowire.AppendTag(b, 3, protowire.VarintType)
		b = protowire.AppendVarint(b, uint64(int64(m.Tail)))
	}
	return b
}

func H_C04_Msgs_M()   { pbC04(mkMsgs("", 0)) }
func H_C04_Msgs_Rm()  { pbC04(mkMsgs("", 1)) }
func H_C04_Msgs_All() { pbC04(mkMsgs("", 2)) }
func H_C05_Msgs_M()   { m := mkMsgs("", 0); pbC05(m, expMsgs(pbBuf(), m)) }
func H_C05_Msgs_Rm()  { m := mkMsgs("", 1); pbC05(m, expMsgs(pbBuf(), m)) }
func H_C05_Msgs_All() { m := mkMsgs("", 2); pbC05(m, expMsgs(pbBuf(), m)) }
func H_C09_Msgs() {
	m := &Msgs{M: mkLeaf("a_", false)} // first contents: anything that leaves a non-zero size behind
	_ = m.Size()
	m2 := mkMsgs("b_", 2)
	m.M, m.Rm, m.Tail = m2.M, m2.Rm, m2.Tail
	pbC09(m, expMsgs(pbBuf(), m2))
}

// mutation *inside* a nested message that was already sized as part of its parent
func H_C09_Msgs_Inner() {
	m := &Msgs{M: mkLeaf("a_", false)}
	_ = m.Size()
	l2 := mkLeaf("b_", true)
	m.M.A, m.M.S = l2.A, l2.S
	pbC09(m, expMsgs(pbBuf(), m))
}

// ---- Node: self-recursive, depth <= 2, one kid per level ----

func mkNode(pfx string, depth int) *Node {
	n := &Node{}
	n.V = nondetI32(pfx + "v")
	verifAssume(n.V >= 0)
	verifAssume(n.V < 64)
	if depth > 0 {
		if nondetBool(pfx + "has_next") {
			n.Next = mkNodeNext(pfx, depth-1)
		}
		if depth == 2 && nondetBool(pfx+"has_kid") { // kids only at the top level
			n.Kids = append(n.Kids, mkNodeKid(pfx, 0))
		}
	}
	return n
}

// (separate functions only to keep input names constant strings)
func mkNodeNext(pfx string, depth int) *Node { return mkNode(pfx+"n_", depth) }
func mkNodeKid(pfx string, depth int) *Node  { return mkNode(pfx+"k_", depth) }

func expNode(b []byte, n *Node) []byte {
	if n.V != 0 {
		b = protowire.AppendTag(b, 1, protowire.VarintType)
		b = protowire.AppendVarint(b, uint64(int64(n.V)))
	}
	if n.Next != nil {
		b = protowire.AppendTag(b, 2, protowire.BytesType)
		b = protowire.AppendBytes(b, expNode(make([]byte, 0, 64), n.Next))
	}
	for _, k := range n.Kids {
		b = protowire.AppendTag(b, 3, protowire.BytesType)
		b = protowire.AppendBytes(b, expNode(make([]byte, 0, 64), k))
	}
	return b
}

func H_C04_Node() { pbC04(mkNode("", 2)) }
func H_C05_Node() { n := mkNode("", 2); pbC05(n, expNode(pbBuf(), n)) }
func H_C09_Node() {
	n := mkNode("a_", 0)
	n.Next = &Node{V: 3}
	_ = n.Size()
	n2 := mkNode("b_", 2)
	n.V, n.Next, n.Kids = n2.V, n2.Next, n2.Kids
	pbC09(n, expNode(pbBuf(), n2))
}

// ---- One: every member kind of a oneof, one at a time, and unset ----

func mkOne(pfx string) (*One, int) {
	m := &One{}
	which := nondetInt(pfx + "which")
	verifAssume(which >= 0)
	verifAssume(which <= 10)
	which = verifConcretize(which)
	switch which {
	case 1:
		m.C = &One_I{I: nondetI32(pfx + "i")}
	case 2:
		m.C = &One_S{S: string(pbBytes(pfx + "s"))}
	case 3:
		m.C = &One_B{B: pbBytesNonNil(pfx + "b")}
	case 4:
		m.C = &One_L{L: mkLeaf(pfx+"l_", false)}
	case 5:
		m.C = &One_T{T: nondetBool(pfx + "t")}
	case 6:
		m.C = &One_Sf{Sf: nondetI32(pfx + "sf")}
	case 7:
		m.C = &One_D{D: math.Float64frombits(nondetU64(pfx + "d"))}
	case 8:
		m.C = &One_E{E: E(nondetI32(pfx + "e"))}
	case 9:
		m.C = &One_Z{Z: nondetI64(pfx + "z")}
	case 10:
		m.C = &One_U{U: nondetU64(pfx + "u")}
	}
	return m, which
}

// a set oneof member is always emitted, zero values included
func expOne(b []byte, m *One) []byte {
	switch c := m.C.(type) {
	case *One_I:
		b = protowire.AppendVarint(protowire.AppendTag(b, 1, protowire.VarintType), uint64(int64(c.I)))
	case *One_S:
		b = protowire.AppendString(protowire.AppendTag(b, 2, protowire.BytesType), c.S)
	case *One_B:
		b = protowire.AppendBytes(protowire.AppendTag(b, 3, protowire.BytesType), c.B)
	case *One_L:
		b = expLeafField(b, 4, c.L)
	case *One_T:
		b = protowire.AppendVarint(protowire.AppendTag(b, 5, protowire.VarintType), verifB2U(c.T))
	case *One_Sf:
		b = protowire.AppendFixed32(protowire.AppendTag(b, 6, protowire.Fixed32Type), uint32(c.Sf))
	case *One_D:
		b = protowire.AppendFixed64(protowire.AppendTag(b, 7, protowire.Fixed64Type), math.Float64bits(c.D))
	case *One_E:
		b = protowire.AppendVarint(protowire.AppendTag(b, 8, protowire.VarintType), uint64(int64(c.E)))
	case *One_Z:
		b = protowire.AppendVarint(protowire.AppendTag(b, 9, protowire.VarintType), protowire.EncodeZigZag(c.Z))
	case *One_U:
		b = protowire.AppendVarint(protowire.AppendTag(b, 2048, protowire.VarintType), c.U)
	}
	return b
}

func H_C04_One() { m, _ := mkOne(""); pbC04(m) }
func H_C05_One() { m, _ := mkOne(""); pbC05(m, expOne(pbBuf(), m)) }
func H_C09_One() {
	m := &One{C: &One_S{S: string(pbBytes1("a_s"))}}
	_ = m.Size()
	m2, _ := mkOne("b_")
	m.C = m2.C
	pbC09(m, expOne(pbBuf(), m2))
}

// ---- Maps: one map at a time with one entry; two entries for the string-keyed and the int-keyed map ----

func H_C04_Maps_One() { mapsOne(true) }
func H_C05_Maps_One() { mapsOne(false) }

func mapsOne(c04 bool) {
	m := &Maps{}
	var exp []byte
	ent := make([]byte, 0, 64)
	which := nondetInt("which")
	verifAssume(which >= 1)
	verifAssume(which <= 6)
	switch verifConcretize(which) {
	case 1:
		k, v := string(pbBytes("k")), nondetI32("v")
		m.Ss = map[string]int32{k: v}
		ent = protowire.AppendString(protowire.AppendTag(ent, 1, protowire.BytesType), k)
		ent = protowire.AppendVarint(protowire.AppendTag(ent, 2, protowire.VarintType), protowire.EncodeZigZag(int64(v)))
		exp = protowire.AppendBytes(protowire.AppendTag(pbBuf(), 1, protowire.BytesType), ent)
	case 2:
		k, v := nondetI32("k"), string(pbBytes("v"))
		m.Is = map[int32]string{k: v}
		ent = protowire.AppendVarint(protowire.AppendTag(ent, 1, protowire.VarintType), uint64(int64(k)))
		ent = protowire.AppendString(protowire.AppendTag(ent, 2, protowire.BytesType), v)
		exp = protowire.AppendBytes(protowire.AppendTag(pbBuf(), 2, protowire.BytesType), ent)
	case 3:
		k, v := nondetU64("k"), pbBytesNonNil("v")
		m.Ub = map[uint64][]byte{k: v}
		ent = protowire.AppendVarint(protowire.AppendTag(ent, 1, protowire.VarintType), k)
		ent = protowire.AppendBytes(protowire.AppendTag(ent, 2, protowire.BytesType), v)
		exp = protowire.AppendBytes(protowire.AppendTag(pbBuf(), 3, protowire.BytesType), ent)
	case 4:
		k, v := string(pbBytes("k")), mkLeaf("v_", false)
		m.Sl = map[string]*Leaf{k: v}
		ent = protowire.AppendString(protowire.AppendTag(ent, 1, protowire.BytesType), k)
		ent = expLeafField(ent, 2, v)
		exp = protowire.AppendBytes(protowire.AppendTag(pbBuf(), 4, protowire.BytesType), ent)
	case 5:
		k, v := nondetI32("k"), math.Float64frombits(nondetU64("v"))
		m.Fd = map[int32]float64{k: v}
		ent = protowire.AppendFixed32(protowire.AppendTag(ent, 1, protowire.Fixed32Type), uint32(k))
		ent = protowire.AppendFixed64(protowire.AppendTag(ent, 2, protowire.Fixed64Type), math.Float64bits(v))
		exp = protowire.AppendBytes(protowire.AppendTag(pbBuf(), 5, protowire.BytesType), ent)
	default:
		k, v := nondetI64("k"), E(nondetI32("v"))
		m.Ie = map[int64]E{k: v}
		ent = protowire.AppendVarint(protowire.AppendTag(ent, 1, protowire.VarintType), uint64(k))
		ent = protowire.AppendVarint(protowire.AppendTag(ent, 2, protowire.VarintType), uint64(int64(v)))
		exp = protowire.AppendBytes(protowire.AppendTag(pbBuf(), 6, protowire.BytesType), ent)
	}
	if c04 {
		pbC04(m)
	} else {
		pbC05(m, exp)
	}
}

func H_C04_Maps_Empty() {
	m := &Maps{Ss: map[string]int32{}, Ub: map[uint64][]byte{}}
	pbC04(m)
}

func H_C05_Maps_Empty() {
	m := &Maps{Ss: map[string]int32{}, Ub: map[uint64][]byte{}}
	pbC05(m, pbBuf())
}

// two entries: sizes must add up whatever the iteration order (the byte order of entries is not compared)
func H_C04_Maps_Two() {
	m := &Maps{}
	k1, k2 := nondetI32("k1"), nondetI32("k2")
	verifAssume(k1 != k2)
	verifAssume(k1 >= 0)
	verifAssume(k1 < 64)
	m.Is = map[int32]string{k1: string(pbBytes("v1")), k2: string(pbBytes("v2"))}
	m.Fd = map[int32]float64{7: 1.5}
	// with more than one entry the two marshal calls may iterate the map in different orders: sizes only
	sz := verifConcretize(m.Size())
	buf := nondetBytesLen("buf", sz)
	verifAssert(m.MarshalTo(buf) == nil, "MarshalTo into Size() bytes succeeds")
	out, err := m.Marshal()
	verifAssert2(err == nil, len(out) == sz, "len(Marshal()) equals Size()")
	verifReach("end")
}

// ---- Mix: several kinds side by side (interactions through the snippets' shared locals) ----

func mkMix(pfx string) *Mix {
	m := &Mix{}
	m.A = nondetI32(pfx + "a")
	verifAssume(m.A >= 0)
	verifAssume(m.A < 64)
	m.B = string(pbBytes1(pfx + "b"))
	n := pbCount(pfx+"nc", 1, 2)
	m.C = make([]uint32, n)
	for i := range m.C {
		m.C[i] = nondetU32N(pfx+"c", i)
		verifAssume(m.C[i] < 1<<14)
	}
	if nondetBool(pfx + "has_d") {
		m.D = mkLeaf(pfx+"d_", false)
	}
	m.E = nondetBool(pfx + "e")
	m.G = pbBytes1(pfx + "g")
	return m
}

func expMix(b []byte, m *Mix) []byte {
	if m.A != 0 {
		b = protowire.AppendVarint(protowire.AppendTag(b, 1, protowire.VarintType), uint64(int64(m.A)))
	}
	if len(m.B) > 0 {
		b = protowire.AppendString(protowire.AppendTag(b, 2, protowire.BytesType), m.B)
	}
	if len(m.C) > 0 {
		pl := make([]byte, 0, 32)
		for _, v := range m.C {
			pl = protowire.AppendVarint(pl, uint64(v))
		}
		b = protowire.AppendBytes(protowire.AppendTag(b, 3, protowire.BytesType), pl)
	}
	if m.D != nil {
		b = expLeafField(b, 4, m.D)
	}
	if m.E {
		b = protowire.AppendVarint(protowire.AppendTag(b, 5, protowire.VarintType), 1)
	}
	if len(m.G) > 0 {
		b = protowire.AppendBytes(protowire.AppendTag(b, 6, protowire.BytesType), m.G)
	}
	return b
}

func H_C04_Mix() { pbC04(mkMix("")) }
func H_C05_Mix() { m := mkMix(""); pbC05(m, expMix(pbBuf(), m)) }
func H_C09_Mix() {
	m := &Mix{A: 5, B: "x", E: true} // first contents: anything that leaves a non-zero size behind
	_ = m.Size()
	m2 := mkMix("b_")
	m.A, m.B, m.C, m.D, m.E, m.G = m2.A, m2.B, m2.C, m2.D, m2.E, m2.G
	pbC09(m, expMix(pbBuf(), m2))
}

// ======================================================================================================
// C06 / C10: Unmarshal of composite messages agrees with the reference on valid encodings

func leafEq(a, b *Leaf) bool {
	return verifAnd(a.A == b.A, verifBytesEq([]byte(a.S), []byte(b.S)))
}

func H_C06_Msgs() {
	src := mkMsgs("", 2)
	in := expMsgs(pbBuf(), src)
	m := mkMsgs("d_", 2) // pre-populated destination
	err := m.Unmarshal(in)
	verifAssert(err == nil, "Unmarshal accepts the canonical encoding")
	verifAssert2((m.M != nil) == (src.M != nil), len(m.Rm) == len(src.Rm), "presence and element count (empty elements included) are decoded")
	if m.M != nil && src.M != nil {
		verifAssert(leafEq(m.M, src.M), "nested message fields")
	}
	for i := 0; i < len(src.Rm) && i < len(m.Rm); i++ {
		verifAssert(leafEq(m.Rm[i], src.Rm[i]), "repeated message elements in order")
	}
	verifAssert(m.Tail == src.Tail, "scalar after messages")
	verifAssertDecodesLikeRef(m, in, "Unmarshal result equals the message the reference runtime decodes")
	verifReach("end")
}

// a singular message field occurring twice: the occurrences are merged (protobuf encoding spec)
func H_C06_Msgs_Merge() {
	a := nondetI32("a")
	verifAssume(a > 0)
	verifAssume(a < 64)
	s := pbBytes1("s")
	verifAssume(len(s) > 0)
	first := &Leaf{A: a}
	second := &Leaf{S: string(s)}
	in := expLeafField(pbBuf(), 1, first)
	in = expLeafField(in, 1, second)
	m := &Msgs{}
	err := m.Unmarshal(in)
	verifAssert2(err == nil, m.M != nil, "Unmarshal accepts a repeated occurrence of a singular message field")
	if m.M != nil {
		verifAssert2(m.M.A == a, verifBytesEq([]byte(m.M.S), s), "occurrences of a singular message field are merged, not replaced")
	}
	verifAssertDecodesLikeRef(m, in, "Unmarshal result equals the message the reference runtime decodes")
	verifReach("end")
}

func H_C06_Node() {
	src := mkNode("", 2)
	in := expNode(pbBuf(), src)
	m := &Node{V: 9, Kids: []*Node{{V: 1}}}
	err := m.Unmarshal(in)
	verifAssert(err == nil, "Unmarshal accepts the canonical encoding of a recursive message")
	verifAssert3(m.V == src.V, (m.Next != nil) == (src.Next != nil), len(m.Kids) == len(src.Kids), "top level")
	if m.Next != nil && src.Next != nil {
		verifAssert2(m.Next.V == src.Next.V, (m.Next.Next != nil) == (src.Next.Next != nil), "second level")
		if m.Next.Next != nil && src.Next.Next != nil {
			verifAssert(m.Next.Next.V == src.Next.Next.V, "third level")
		}
	}
	if len(m.Kids) == 1 && len(src.Kids) == 1 {
		verifAssert(m.Kids[0].V == src.Kids[0].V, "kid")
	}
	verifAssertDecodesLikeRef(m, in, "Unmarshal result equals the message the reference runtime decodes")
	verifReach("end")
}

// oneof: two different members in sequence - the last one wins and the earlier one is gone
func H_C06_One() { c06One(false) }
func H_C10_One() { c06One(true) }

func c06One(aliasCheck bool) {
	if aliasCheck {
		pbC10Prelude()
	}
	first, _ := mkOne("a_")
	second, which := mkOne("b_")
	in := expOne(pbBuf(), first)
	in = protowire.AppendVarint(protowire.AppendTag(in, 77, protowire.VarintType), 5)
	in = expOne(in, second)
	m := &One{C: &One_I{I: 42}}
	err := m.Unmarshal(in)
	verifAssert(err == nil, "Unmarshal accepts oneof members")
	want := second
	if which == 0 {
		want = first
	}
	back := expOne(pbBuf(), m)
	verifAssertBytesEq(back, expOne(pbBuf(), want), "the last oneof member on the wire is the one that is set, with its value")
	verifAssertDecodesLikeRef(m, in, "Unmarshal result equals the message the reference runtime decodes")
	if aliasCheck {
		verifAssertNoAlias(m, in, "safe-mode decoding does not alias the input buffer")
	}
	verifReach("end")
}


// map entries: key and value in either order, omitted, duplicated; later entries with the same key win
func mapsEntry(shape int, k int32, v string, k2 int32) []byte {
	ent := make([]byte, 0, 32)
	key := func(b []byte, k int32) []byte {
		return protowire.AppendVarint(protowire.AppendTag(b, 1, protowire.VarintType), uint64(int64(k)))
	}
	val := func(b []byte, v string) []byte {
		return protowire.AppendString(protowire.AppendTag(b, 2, protowire.BytesType), v)
	}
	switch shape {
	case 0: // key, value
		ent = val(key(ent, k), v)
	case 1: // value, key
		ent = key(val(ent, v), k)
	case 2: // key only: the value takes its default
		ent = key(ent, k)
	case 3: // value only: the key takes its default
		ent = val(ent, v)
	case 4: // empty entry: default key, default value
	default: // key, value, key again: the last key wins
		ent = key(val(key(ent, k2), v), k)
	}
	return ent
}

func H_C06_Maps_Shapes() {
	shape := nondetInt("shape")
	verifAssume(shape >= 0)
	verifAssume(shape <= 5)
	shape = verifConcretize(shape)
	k := nondetI32("k")
	verifAssume(k > 0)
	verifAssume(k < 64)
	v := string(pbBytes1("v"))
	ent := mapsEntry(shape, k, v, 63-k)
	in := protowire.AppendBytes(protowire.AppendTag(pbBuf(), 2, protowire.BytesType), ent)
	in = protowire.AppendVarint(protowire.AppendTag(in, 77, protowire.VarintType), 5) // a following field must not be swallowed
	wantK, wantV := k, v
	switch shape {
	case 2:
		wantV = ""
	case 3:
		wantK = 0
	case 4:
		wantK, wantV = 0, ""
	}
	m := &Maps{Is: map[int32]string{1000: "old"}}
	err := m.Unmarshal(in)
	verifAssert(err == nil, "Unmarshal accepts a map entry with key and value in either order, omitted or repeated")
	verifAssert(len(m.Is) == 1, "exactly the decoded entry is in the map (previous contents are gone)")
	got, ok := m.Is[wantK]
	verifAssert2(ok, verifBytesEq([]byte(got), []byte(wantV)), "the entry has the reference's key and value (defaults for omitted parts)")
	verifAssertDecodesLikeRef(m, in, "Unmarshal result equals the message the reference runtime decodes")
	verifReach("end")
}

// C10: whatever shape a map entry has (empty, partial, reversed), the string / bytes data decoded after it in the
// same message does not alias the input
func H_C10_Maps_AfterShape() {
	pbC10Prelude()
	shape := nondetInt("shape")
	verifAssume(shape >= 0)
	verifAssume(shape <= 5)
	shape = verifConcretize(shape)
	v := string(pbBytes1("v"))
	ent := mapsEntry(shape, 5, v, 6)
	in := protowire.AppendBytes(protowire.AppendTag(pbBuf(), 2, protowire.BytesType), ent)
	// a second string-valued entry and a bytes-valued entry of another map
	e2 := protowire.AppendString(protowire.AppendTag(protowire.AppendVarint(protowire.AppendTag(make([]byte, 0, 16), 1, protowire.VarintType), 9), 2, protowire.BytesType), string(pbBytes1("v2")))
	in = protowire.AppendBytes(protowire.AppendTag(in, 2, protowire.BytesType), e2)
	e3 := protowire.AppendBytes(protowire.AppendTag(protowire.AppendVarint(protowire.AppendTag(make([]byte, 0, 16), 1, protowire.VarintType), 3), 2, protowire.BytesType), pbBytes1("v3"))
	in = protowire.AppendBytes(protowire.AppendTag(in, 3, protowire.BytesType), e3)
	m := &Maps{}
	err := m.Unmarshal(in)
	verifAssert(err == nil, "Unmarshal accepts map entries of every shape followed by further entries")
	verifAssertDecodesLikeRef(m, in, "Unmarshal result equals the message the reference runtime decodes")
	verifAssertNoAlias(m, in, "safe-mode decoding does not alias the input buffer")
	verifReach("end")
}

// one entry per map kind, canonical form; and a repeated key (last entry wins)
func H_C06_Maps_Kinds() { c06MapsKinds(false) }
func H_C10_Maps_Kinds() { c06MapsKinds(true) }

func c06MapsKinds(aliasCheck bool) {
	if aliasCheck {
		pbC10Prelude()
	}
	m0 := &Maps{}
	which := nondetInt("which")
	verifAssume(which >= 1)
	verifAssume(which <= 6)
	var in []byte
	switch verifConcretize(which) {
	case 1:
		m0.Ss = map[string]int32{string(pbBytes1("k")): nondetI32("v")}
	case 2:
		m0.Is = map[int32]string{nondetI32("k"): string(pbBytes1("v"))}
	case 3:
		m0.Ub = map[uint64][]byte{nondetU64("k"): pbBytesNonNil("v")}
	case 4:
		m0.Sl = map[string]*Leaf{string(pbBytes1("k")): mkLeaf("v_", false)}
	case 5:
		m0.Fd = map[int32]float64{nondetI32("k"): math.Float64frombits(nondetU64("v"))}
	default:
		m0.Ie = map[int64]E{nondetI64("k"): E(nondetI32("v"))}
	}
	in, err := m0.Marshal() // C05 shows these bytes are canonical
	verifAssert(err == nil, "Marshal")
	m := &Maps{}
	err = m.Unmarshal(in)
	verifAssert(err == nil, "Unmarshal accepts the canonical encoding of every map kind")
	verifAssert(len(m.Ss)+len(m.Is)+len(m.Ub)+len(m.Sl)+len(m.Fd)+len(m.Ie) == 1, "one entry decoded")
	back, err := m.Marshal()
	verifAssert(err == nil, "Marshal of the decoded message")
	verifAssertBytesEq(back, in, "decoding and re-encoding a single map entry reproduces it")
	verifAssertDecodesLikeRef(m, in, "Unmarshal result equals the message the reference runtime decodes")
	if aliasCheck {
		verifAssertNoAlias(m, in, "safe-mode decoding does not alias the input buffer")
	}
	verifReach("end")
}


func H_C06_Mix() { c06Mix(false) }
func H_C10_Mix() { c06Mix(true) }

func c06Mix(aliasCheck bool) {
	if aliasCheck {
		pbC10Prelude()
	}
	src := mkMix("")
	in := expMix(pbBuf(), src)
	m := &Mix{A: 9, B: "old", C: []uint32{1, 2}, D: &Leaf{A: 1}, E: true, G: []byte{7}} // pre-populated destination
	err := m.Unmarshal(in)
	verifAssert(err == nil, "Unmarshal accepts the canonical encoding")
	back := expMix(pbBuf(), m)
	verifAssertBytesEq(back, in, "every field is decoded to the encoded value; nothing of the previous contents remains")
	verifAssertDecodesLikeRef(m, in, "Unmarshal result equals the message the reference runtime decodes")
	if aliasCheck {
		verifAssertNoAlias(m, in, "safe-mode decoding does not alias the input buffer")
	}
	verifReach("end")
}


// ======================================================================================================
// C08: Unmarshal is total on arbitrary bytes (no panic, allocation in proportion to the input)

func H_C08_SInt32()   { pbC08(&SInt32{}, c08N(5, 7)) }
func H_C08_SSint64()  { pbC08(&SSint64{}, c08N(5, 7)) }
func H_C08_SFixed32() { pbC08(&SFixed32{}, c08N(6, 8)) }
func H_C08_SSfixed64() { pbC08(&SSfixed64{}, c08N(6, 8)) }
func H_C08_SFloat()   { pbC08(&SFloat{}, c08N(6, 8)) }
func H_C08_SDouble()  { pbC08(&SDouble{}, c08N(6, 8)) }
func H_C08_SBool()    { pbC08(&SBool{}, c08N(5, 7)) }
func H_C08_SEnum()    { pbC08(&SEnum{}, c08N(5, 7)) }
func H_C08_SString()  { pbC08(&SString{}, c08N(5, 7)) }
func H_C08_SBytes()   { pbC08(&SBytes{}, c08N(5, 7)) }
func H_C08_Msgs()     { pbC08(&Msgs{}, c08N(5, 6)) }
func H_C08_Node()     { pbC08(&Node{}, c08N(5, 6)) }
func H_C08_One()      { pbC08(&One{}, c08N(4, 6)) }
func H_C08_Maps()     { pbC08(&Maps{}, c08N(4, 6)) }
func H_C08_Mix()      { pbC08(&Mix{}, c08N(4, 6)) }

func H_C08_Len_SInt32()    { pbC08Len(&SInt32{}) }
func H_C08_Len_SSint64()   { pbC08Len(&SSint64{}) }
func H_C08_Len_SFixed32()  { pbC08Len(&SFixed32{}) }
func H_C08_Len_SSfixed64() { pbC08Len(&SSfixed64{}) }
func H_C08_Len_SFloat()    { pbC08Len(&SFloat{}) }
func H_C08_Len_SDouble()   { pbC08Len(&SDouble{}) }
func H_C08_Len_SBool()     { pbC08Len(&SBool{}) }
func H_C08_Len_SEnum()     { pbC08Len(&SEnum{}) }
func H_C08_Len_SString()   { pbC08Len(&SString{}) }
func H_C08_Len_SBytes()    { pbC08Len(&SBytes{}) }
func H_C08_Len_Msgs()      { pbC08Len(&Msgs{}) }
func H_C08_Len_Node()      { pbC08Len(&Node{}) }
func H_C08_Len_One()       { pbC08Len(&One{}) }
func H_C08_Len_Maps()      { pbC08Len(&Maps{}) }
func H_C08_Len_Mix()       { pbC08Len(&Mix{}) }


// ======================================================================================================
// C04/C05 on long values: the length prefix crosses the 1-byte / 2-byte boundary (127/128) for strings, bytes,
// nested messages and map entries. Symbolic length up to 300, symbolic contents, no unrolling.

func pbLong(name string) []byte { return nondetBytes(name, 300) }

func H_C05_Long_String() {
	m := &SString{F: string(pbLong("f"))}
	pbC05(m, exp_SString(pbBuf(), m))
}

func H_C05_Long_Bytes() {
	m := &SBytes{F: pbLong("f")}
	pbC05(m, exp_SBytes(pbBuf(), m))
}

func H_C05_Long_Nested() {
	m := &Msgs{M: &Leaf{A: 1, S: string(pbLong("s"))}}
	pbC05(m, expMsgs(pbBuf(), m))
}

func H_C05_Long_Oneof() {
	m := &One{C: &One_S{S: string(pbLong("s"))}}
	pbC05(m, expOne(pbBuf(), m))
}

func H_C05_Long_MapEntry() {
	v := string(pbLong("v"))
	m := &Maps{Is: map[int32]string{7: v}}
	ent := protowire.AppendVarint(protowire.AppendTag(make([]byte, 0, 400), 1, protowire.VarintType), 7)
	ent = protowire.AppendString(protowire.AppendTag(ent, 2, protowire.BytesType), v)
	pbC05(m, protowire.AppendBytes(protowire.AppendTag(pbBuf(), 2, protowire.BytesType), ent))
}

func H_C04_Long_String() { pbC04Long(&SString{F: string(pbLong("f"))}) }
func H_C04_Long_Nested() { pbC04Long(&Msgs{M: &Leaf{A: 1, S: string(pbLong("s"))}}) }

// pbC04 without the case split on Size(): the buffer has symbolic length
func pbC04Long(m pbMsg) {
	sz := m.Size()
	verifAssume(sz >= 0)
	verifAssume(sz <= 400)
	buf := make([]byte, sz)
	err := m.MarshalTo(buf)
	verifAssert(err == nil, "MarshalTo into a buffer of Size() bytes succeeds")
	out, err := m.Marshal()
	verifAssert2(err == nil, len(out) == sz, "len(Marshal()) equals Size()")
	verifAssertBytesEq(buf, out, "MarshalTo writes the bytes Marshal returns")
	verifReach("end")
}


// C09 concurrent clause on the composites
func H_C09_Own_Msgs() { pbC09Own(mkMsgs("", 2)) }
func H_C09_Own_Node() { pbC09Own(mkNode("", 2)) }
func H_C09_Own_One()  { m, _ := mkOne(""); pbC09Own(m) }
func H_C09_Own_Mix()  { pbC09Own(mkMix("")) }
func H_C09_Own_Maps() {
	pbC09Own(&Maps{Ss: map[string]int32{string(pbBytes1("k")): nondetI32("v")}, Sl: map[string]*Leaf{"a": mkLeaf("l_", false)}})
}

