//go:build verif

package main

import (
	"bytes"
	"fmt"

	"github.com/CrowdStrike/csproto"
	"google.golang.org/protobuf/encoding/protowire"
)

// C20 (second half) — protodump prints one entry per field in wire order carrying the field number, wire type
// and value that a reference parser finds, recurses into exactly the requested paths, and reports malformed
// input as an error instead of crashing.
//
// dumpProto is run on messages written by the protowire reference with symbolic values. Symbolically the
// output is observed as the sequence of fmt.Sprintf calls (constant format + argument values; the rendering of
// text is fmt's business); natively the text written is compared with the text the harness renders from the
// reference values.

type c20Sink struct{ buf bytes.Buffer }

func (s *c20Sink) Write(p []byte) (int, error) { return s.buf.Write(p) }

const (
	c20TagFmt = "%stag: %d, wire type: %s\n"
)

type c20Field struct {
	tag int
	wt  int
	v   uint64
	pl  []byte
}

func c20MkField(i int, allowNested bool) c20Field {
	f := c20Field{}
	f.tag = nondetIntN("tag", i)
	verifAssume(f.tag >= 1)
	verifAssume(f.tag <= 3)
	f.tag = verifConcretize(f.tag)
	f.wt = nondetIntN("wt", i)
	verifAssume(f.wt == 0 || f.wt == 1 || f.wt == 2 || f.wt == 5)
	f.wt = verifConcretize(f.wt)
	switch f.wt {
	case 0, 1:
		f.v = nondetU64N("v", i)
		if f.wt == 0 {
			verifAssume(f.v < 1<<14)
		}
	case 5:
		f.v = uint64(nondetU32N("v32", i))
	default:
		pl := nondetBytesN("pl", i, 2)
		f.pl = pl[:verifConcretize(len(pl))]
	}
	return f
}

func c20Append(b []byte, f c20Field) []byte {
	switch f.wt {
	case 0:
		return protowire.AppendVarint(protowire.AppendTag(b, protowire.Number(f.tag), protowire.VarintType), f.v)
	case 1:
		return protowire.AppendFixed64(protowire.AppendTag(b, protowire.Number(f.tag), protowire.Fixed64Type), f.v)
	case 5:
		return protowire.AppendFixed32(protowire.AppendTag(b, protowire.Number(f.tag), protowire.Fixed32Type), uint32(f.v))
	default:
		return protowire.AppendBytes(protowire.AppendTag(b, protowire.Number(f.tag), protowire.BytesType), f.pl)
	}
}

// c20Expect walks the expected print log (symbolic mode) / renders the expected text (native mode) for one
// flat field at print index *pi; returns the text
func c20ExpectField(pi *int, f c20Field, asString bool, out *bytes.Buffer, prefix string) {
	native := verifNative()
	if native {
		fmt.Fprintf(out, c20TagFmt, prefix, f.tag, csproto.WireType(f.wt))
	} else {
		verifAssert3(verifPrintIs(*pi, c20TagFmt), verifPrintInt(*pi, 1) == f.tag, verifPrintInt(*pi, 2) == f.wt, "one entry per field in wire order with the reference's field number and wire type")
	}
	*pi++
	switch f.wt {
	case 0:
		if native {
			fmt.Fprintf(out, "%s  varint: %d\n", prefix, int64(f.v))
		} else {
			verifAssert2(verifPrintIs(*pi, "%s  varint: %d\n"), verifPrintInt(*pi, 1) == int(f.v), "varint value")
		}
		*pi++
	case 1:
		if native {
			fmt.Fprintf(out, "%s  fixed64: %d\n", prefix, f.v)
		} else {
			verifAssert2(verifPrintIs(*pi, "%s  fixed64: %d\n"), verifPrintInt(*pi, 1) == int(f.v), "fixed64 value")
		}
		*pi++
	case 5:
		if native {
			fmt.Fprintf(out, "%s  fixed32: %d\n", prefix, uint32(f.v))
		} else {
			verifAssert2(verifPrintIs(*pi, "%s  fixed32: %d\n"), verifPrintInt(*pi, 1) == int(f.v), "fixed32 value")
		}
		*pi++
	default:
		if native {
			fmt.Fprintf(out, "%s  length: %d\n", prefix, len(f.pl))
		} else {
			verifAssert2(verifPrintIs(*pi, "%s  length: %d\n"), verifPrintInt(*pi, 1) == len(f.pl), "length of a length-delimited value")
		}
		*pi++
		if asString {
			if native {
				fmt.Fprintf(out, "%s  string: %s\n", prefix, string(f.pl))
			} else {
				verifAssert2(verifPrintIs(*pi, "%s  string: %s\n"), verifPrintInt(*pi, 1) == len(f.pl), "string value")
			}
			*pi++
			return
		}
		if native {
			fmt.Fprintf(out, "%s  [", prefix)
		} else {
			verifAssert(verifPrintIs(*pi, "%s  ["), "raw bytes open")
		}
		*pi++
		for i, b := range f.pl {
			if native {
				if i > 0 {
					out.WriteByte(',')
				}
				fmt.Fprintf(out, "0x%02X", b)
			} else {
				verifAssert2(verifPrintIs(*pi, "0x%02X"), verifPrintInt(*pi, 0) == int(b), "raw byte value")
			}
			*pi++
		}
		if native {
			out.WriteString("]\n")
		}
	}
}

// two flat fields; the first one's tag is in the strings set iff str
func H_C20_Dump_Flat() {
	f1, f2 := c20MkField(1, false), c20MkField(2, false)
	msg := c20Append(c20Append(make([]byte, 0, 64), f1), f2)
	str := nondetBool("strings")
	strs := &tagPaths{}
	if str {
		strs.paths = []tagPath{{f1.tag}}
	}
	sink := &c20Sink{}
	verifPrintReset()
	err := dumpProto(sink, csproto.NewDecoder(msg), tagPath{}, dumpConfig{expand: &tagPaths{}, strings: strs})
	verifAssert(err == nil, "a well-formed message is dumped without error")
	pi := 0
	var want bytes.Buffer
	c20ExpectField(&pi, f1, str, &want, "")
	c20ExpectField(&pi, f2, verifAnd(str, f2.tag == f1.tag), &want, "")
	if verifNative() {
		verifAssert(sink.buf.String() == want.String(), "the text printed is the faithful rendering of the reference parse")
	} else {
		verifAssert(verifPrintCount() == pi, "nothing else is printed")
	}
	verifReach("end")
}

// a nested message at tag 2 containing one field; expand requested for path "2" (and for a path that must not match)
func H_C20_Dump_Nested() {
	inner := c20MkField(1, false)
	sub := c20Append(make([]byte, 0, 32), inner)
	outer := c20Field{tag: 2, wt: 2, pl: sub}
	other := c20MkField(2, false)
	verifAssume(other.tag != 2 || other.wt != 2)
	msg := c20Append(c20Append(make([]byte, 0, 64), outer), other)
	expand := nondetBool("expand")
	exp := &tagPaths{paths: []tagPath{{3, 1}, {1, 2, 3}, {}}} // paths that must NOT trigger any recursion here
	if expand {
		exp.paths = append(exp.paths, tagPath{2})
	}
	sink := &c20Sink{}
	verifPrintReset()
	err := dumpProto(sink, csproto.NewDecoder(msg), tagPath{}, dumpConfig{expand: exp, strings: &tagPaths{}})
	verifAssert(err == nil, "a well-formed message is dumped without error")
	pi := 0
	var want bytes.Buffer
	c20ExpectField(&pi, outer, false, &want, "")
	if expand {
		c20ExpectField(&pi, inner, false, &want, "  ")
	}
	c20ExpectField(&pi, other, false, &want, "")
	if verifNative() {
		verifAssert(sink.buf.String() == want.String(), "the text printed is the faithful rendering of the reference parse; recursion exactly on the requested path")
	} else {
		verifAssert(verifPrintCount() == pi, "recursion happens exactly on the requested path; nothing else is printed")
	}
	verifReach("end")
}

// malformed / arbitrary input: an error or a dump, never a crash
func H_C20_Dump_Arbitrary() {
	n := 5
	if verifTier() == 1 {
		n = 7
	}
	p := nondetBytes("p", n)
	sink := &c20Sink{}
	exp := &tagPaths{paths: []tagPath{{1}, {2}, {1, 1}}}
	_ = dumpProto(sink, csproto.NewDecoder(p), tagPath{}, dumpConfig{expand: exp, strings: &tagPaths{paths: []tagPath{{3}}}})
	verifReach("end")
}
