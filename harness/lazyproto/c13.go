//go:build verif

package lazyproto

import (
	"errors"
	"math"

	"github.com/CrowdStrike/csproto"
	"google.golang.org/protobuf/encoding/protowire"
)

// C13 — lazy partial decoding equals a reference parse.
//
// Valid inputs are written by the protowire reference (executed from its own SSA): every harness builds a
// small message with symbolic values, decodes it through both entry points (Decode / NewDecoder+Decode,
// safe or fast mode) and compares every accessor with what the reference parse of the same bytes gives:
// last occurrence for XxxValue, all occurrences in wire order with packed runs expanded for XxxValues,
// ErrTagNotFound / ErrTagNotDefined / ErrNestingNotDefined via errors.Is, wire-type mismatch and 32-bit
// overflow as errors.

// ---- entry points ----

type c13Res struct {
	r   *DecodeResult
	own DecodeResult
}

// c13Decode runs one of the two entry points (symbolic choice) with a symbolic mode
func c13Decode(data []byte, def Def) *DecodeResult {
	entry := nondetInt("entry")
	verifAssume(entry >= 0)
	verifAssume(entry <= 1)
	if entry == 0 {
		res, err := Decode(data, def)
		verifAssert(err == nil, "Decode accepts a well-formed message")
		return &res
	}
	mode := nondetInt("mode")
	verifAssume(mode >= 0)
	verifAssume(mode <= 1)
	dec, err := NewDecoder(def, WithMode(csproto.DecoderMode(mode)))
	verifAssert2(err == nil, dec != nil, "NewDecoder accepts a valid definition")
	r, err := dec.Decode(data)
	verifAssert2(err == nil, r != nil, "Decoder.Decode accepts a well-formed message")
	return r
}

// c13Tags picks the requested tag A and an unrelated tag B from a small set covering 1-, 2- and 3-byte keys
func c13Tags() (int, int) {
	sel := nondetInt("tagsel")
	verifAssume(sel >= 0)
	verifAssume(sel <= 2)
	switch verifConcretize(sel) {
	case 0:
		return 1, 2
	case 1:
		return 16, 3
	default:
		return 2048, 1
	}
}

func c13Buf() []byte { return make([]byte, 0, 128) }

// c13Bytes is a symbolic byte string whose length is case-split to a concrete value per path
func c13Bytes(name string, max int) []byte {
	b := nondetBytes(name, max)
	return b[:verifConcretize(len(b))]
}

func c13AppendVarintField(b []byte, tag int, v uint64) []byte {
	b = protowire.AppendTag(b, protowire.Number(tag), protowire.VarintType)
	return protowire.AppendVarint(b, v)
}

// ---- varint kinds, unpacked: f(A)=v1, g(B)=w, f(A)=v2 ----

func c13VarintUnpacked() (r *DecodeResult, a int, v1, v2 uint64) {
	a, b := c13Tags()
	v1, v2 = nondetU64("v1"), nondetU64("v2")
	w := nondetU64("w")
	// bounds (stated in the evidence): the last occurrence ranges over all of uint64; the earlier occurrence
	// and the unrelated field are restricted to keep the number of size-class combinations down
	if verifTier() == 1 {
		verifAssume(w < 1<<14)
	} else {
		verifAssume(w < 1<<7)
	}
	msg := c13AppendVarintField(c13Buf(), a, v1)
	msg = c13AppendVarintField(msg, b, w)
	msg = c13AppendVarintField(msg, a, v2)
	// def: A requested, tag 77 requested but absent, B not requested
	r = c13Decode(msg, NewDef(a, 77))
	return
}

func c13Absent(r *DecodeResult, b int) {
	_, err := r.UInt64Value(77)
	verifAssert2(err != nil, errors.Is(err, ErrTagNotFound), "a declared but absent tag yields the not-found error")
	_, err = r.UInt64Value(b)
	verifAssert2(err != nil, errors.Is(err, ErrTagNotDefined), "an undeclared tag yields the not-defined error")
}

func H_C13_UInt64() {
	r, a, v1, v2 := c13VarintUnpacked()
	got, err := r.UInt64Value(a)
	verifAssert2(err == nil, got == v2, "UInt64Value returns the last occurrence")
	vs, err := r.UInt64Values(a)
	verifAssert2(err == nil, len(vs) == 2, "UInt64Values returns all occurrences")
	if len(vs) == 2 {
		verifAssert2(vs[0] == v1, vs[1] == v2, "UInt64Values in wire order")
	}
	_, err = r.Fixed32Value(a)
	verifAssert(err != nil, "a varint field requested as fixed32 is a wire-type mismatch")
	_, err = r.StringValue(a)
	verifAssert(err != nil, "a varint field requested as string is a wire-type mismatch")
	c13Absent(r, 5)
	verifAssert(r.Close() == nil, "Close")
	verifReach("end")
}

func H_C13_Int64() {
	r, a, v1, v2 := c13VarintUnpacked()
	got, err := r.Int64Value(a)
	verifAssert2(err == nil, got == int64(v2), "Int64Value returns the last occurrence")
	vs, err := r.Int64Values(a)
	verifAssert2(err == nil, len(vs) == 2, "Int64Values returns all occurrences")
	if len(vs) == 2 {
		verifAssert2(vs[0] == int64(v1), vs[1] == int64(v2), "Int64Values in wire order")
	}
	verifAssert(r.Close() == nil, "Close")
	verifReach("end")
}

func H_C13_SInt64() {
	r, a, v1, v2 := c13VarintUnpacked()
	got, err := r.SInt64Value(a)
	verifAssert2(err == nil, got == protowire.DecodeZigZag(v2), "SInt64Value returns the last occurrence")
	vs, err := r.SInt64Values(a)
	verifAssert2(err == nil, len(vs) == 2, "SInt64Values returns all occurrences")
	if len(vs) == 2 {
		verifAssert2(vs[0] == protowire.DecodeZigZag(v1), vs[1] == protowire.DecodeZigZag(v2), "SInt64Values in wire order")
	}
	verifAssert(r.Close() == nil, "Close")
	verifReach("end")
}

func H_C13_Bool() {
	r, a, v1, v2 := c13VarintUnpacked()
	got, err := r.BoolValue(a)
	verifAssert2(err == nil, got == (v2 != 0), "BoolValue returns the last occurrence")
	vs, err := r.BoolValues(a)
	verifAssert2(err == nil, len(vs) == 2, "BoolValues returns all occurrences")
	if len(vs) == 2 {
		verifAssert2(vs[0] == (v1 != 0), vs[1] == (v2 != 0), "BoolValues in wire order")
	}
	verifAssert(r.Close() == nil, "Close")
	verifReach("end")
}

func H_C13_UInt32() {
	r, a, v1, v2 := c13VarintUnpacked()
	got, err := r.UInt32Value(a)
	if v2 <= math.MaxUint32 {
		verifAssert2(err == nil, got == uint32(v2), "UInt32Value returns the last occurrence")
	} else {
		verifAssert(err != nil, "a value beyond uint32 is an overflow error")
	}
	vs, err := r.UInt32Values(a)
	if v1 <= math.MaxUint32 && v2 <= math.MaxUint32 {
		verifAssert2(err == nil, len(vs) == 2, "UInt32Values returns all occurrences")
		if len(vs) == 2 {
			verifAssert2(vs[0] == uint32(v1), vs[1] == uint32(v2), "UInt32Values in wire order")
		}
	} else {
		verifAssert(err != nil, "a value beyond uint32 is an overflow error")
	}
	verifAssert(r.Close() == nil, "Close")
	verifReach("end")
}

func c13FitsInt32(v uint64) bool { return int64(v) >= math.MinInt32 && int64(v) <= math.MaxInt32 }

func H_C13_Int32() {
	r, a, v1, v2 := c13VarintUnpacked()
	got, err := r.Int32Value(a)
	if c13FitsInt32(v2) {
		verifAssert2(err == nil, got == int32(v2), "Int32Value returns the last occurrence")
	} else {
		verifAssert(err != nil, "a value beyond int32 is an overflow error")
	}
	vs, err := r.Int32Values(a)
	if c13FitsInt32(v1) && c13FitsInt32(v2) {
		verifAssert2(err == nil, len(vs) == 2, "Int32Values returns all occurrences")
		if len(vs) == 2 {
			verifAssert2(vs[0] == int32(v1), vs[1] == int32(v2), "Int32Values in wire order")
		}
	} else {
		verifAssert(err != nil, "a value beyond int32 is an overflow error")
	}
	verifAssert(r.Close() == nil, "Close")
	verifReach("end")
}

func H_C13_SInt32() {
	r, a, v1, v2 := c13VarintUnpacked()
	got, err := r.SInt32Value(a)
	if v2 <= math.MaxUint32 {
		verifAssert2(err == nil, got == int32(protowire.DecodeZigZag(v2)), "SInt32Value returns the last occurrence")
	} else {
		verifAssert(err != nil, "a zig-zag value beyond 32 bits is an overflow error")
	}
	vs, err := r.SInt32Values(a)
	if v1 <= math.MaxUint32 && v2 <= math.MaxUint32 {
		verifAssert2(err == nil, len(vs) == 2, "SInt32Values returns all occurrences")
		if len(vs) == 2 {
			verifAssert2(vs[0] == int32(protowire.DecodeZigZag(v1)), vs[1] == int32(protowire.DecodeZigZag(v2)), "SInt32Values in wire order")
		}
	} else {
		verifAssert(err != nil, "a zig-zag value beyond 32 bits is an overflow error")
	}
	verifAssert(r.Close() == nil, "Close")
	verifReach("end")
}

// ---- fixed-width kinds, unpacked ----

func H_C13_Fixed32() {
	a, b := c13Tags()
	v1, v2 := nondetU32("v1"), nondetU32("v2")
	msg := protowire.AppendFixed32(protowire.AppendTag(c13Buf(), protowire.Number(a), protowire.Fixed32Type), v1)
	msg = c13AppendVarintField(msg, b, 5)
	msg = protowire.AppendFixed32(protowire.AppendTag(msg, protowire.Number(a), protowire.Fixed32Type), v2)
	r := c13Decode(msg, NewDef(a, 77))
	got, err := r.Fixed32Value(a)
	verifAssert2(err == nil, got == v2, "Fixed32Value returns the last occurrence")
	vs, err := r.Fixed32Values(a)
	verifAssert2(err == nil, len(vs) == 2, "Fixed32Values returns all occurrences")
	if len(vs) == 2 {
		verifAssert2(vs[0] == v1, vs[1] == v2, "Fixed32Values in wire order")
	}
	f, err := r.Float32Value(a)
	verifAssert2(err == nil, math.Float32bits(f) == v2, "Float32Value returns the last occurrence bit for bit")
	fs, err := r.Float32Values(a)
	verifAssert2(err == nil, len(fs) == 2, "Float32Values returns all occurrences")
	if len(fs) == 2 {
		verifAssert2(math.Float32bits(fs[0]) == v1, math.Float32bits(fs[1]) == v2, "Float32Values in wire order")
	}
	_, err = r.UInt64Value(a)
	verifAssert(err != nil, "a fixed32 field requested as varint is a wire-type mismatch")
	_, err = r.Fixed64Value(a)
	verifAssert(err != nil, "a fixed32 field requested as fixed64 is a wire-type mismatch")
	c13Absent(r, b)
	verifAssert(r.Close() == nil, "Close")
	verifReach("end")
}

func H_C13_Fixed64() {
	a, b := c13Tags()
	v1, v2 := nondetU64("v1"), nondetU64("v2")
	msg := protowire.AppendFixed64(protowire.AppendTag(c13Buf(), protowire.Number(a), protowire.Fixed64Type), v1)
	msg = c13AppendVarintField(msg, b, 5)
	msg = protowire.AppendFixed64(protowire.AppendTag(msg, protowire.Number(a), protowire.Fixed64Type), v2)
	r := c13Decode(msg, NewDef(a, 77))
	got, err := r.Fixed64Value(a)
	verifAssert2(err == nil, got == v2, "Fixed64Value returns the last occurrence")
	vs, err := r.Fixed64Values(a)
	verifAssert2(err == nil, len(vs) == 2, "Fixed64Values returns all occurrences")
	if len(vs) == 2 {
		verifAssert2(vs[0] == v1, vs[1] == v2, "Fixed64Values in wire order")
	}
	f, err := r.Float64Value(a)
	verifAssert2(err == nil, math.Float64bits(f) == v2, "Float64Value returns the last occurrence bit for bit")
	fs, err := r.Float64Values(a)
	verifAssert2(err == nil, len(fs) == 2, "Float64Values returns all occurrences")
	if len(fs) == 2 {
		verifAssert2(math.Float64bits(fs[0]) == v1, math.Float64bits(fs[1]) == v2, "Float64Values in wire order")
	}
	_, err = r.Fixed32Value(a)
	verifAssert(err != nil, "a fixed64 field requested as fixed32 is a wire-type mismatch")
	_, err = r.BytesValue(a)
	verifAssert(err != nil, "a fixed64 field requested as bytes is a wire-type mismatch")
	c13Absent(r, b)
	verifAssert(r.Close() == nil, "Close")
	verifReach("end")
}

// ---- strings and bytes: two occurrences with symbolic lengths (0 included) and contents ----

func c13Smax() int {
	if verifTier() == 1 {
		return 5
	}
	return 3
}

func c13TwoStrings() (r *DecodeResult, a int, s1, s2 []byte) {
	a, b := c13Tags()
	s1 = c13Bytes("s1", c13Smax())
	s2 = c13Bytes("s2", c13Smax())
	msg := protowire.AppendBytes(protowire.AppendTag(c13Buf(), protowire.Number(a), protowire.BytesType), s1)
	msg = c13AppendVarintField(msg, b, 5)
	msg = protowire.AppendBytes(protowire.AppendTag(msg, protowire.Number(a), protowire.BytesType), s2)
	r = c13Decode(msg, NewDef(a, 77))
	return
}

func H_C13_String() {
	r, a, s1, s2 := c13TwoStrings()
	got, err := r.StringValue(a)
	verifAssert(err == nil, "StringValue succeeds")
	verifAssertBytesEq([]byte(got), s2, "StringValue returns the last occurrence")
	vs, err := r.StringValues(a)
	verifAssert2(err == nil, len(vs) == 2, "StringValues returns all occurrences, empty strings included")
	if len(vs) == 2 {
		verifAssertBytesEq([]byte(vs[0]), s1, "StringValues[0]")
		verifAssertBytesEq([]byte(vs[1]), s2, "StringValues[1]")
	}
	_, err = r.UInt64Value(a)
	verifAssert(err != nil, "a length-delimited field requested as varint is a wire-type mismatch")
	verifAssert(r.Close() == nil, "Close")
	verifReach("end")
}

func H_C13_Bytes() {
	r, a, s1, s2 := c13TwoStrings()
	got, err := r.BytesValue(a)
	verifAssert(err == nil, "BytesValue succeeds")
	verifAssertBytesEq(got, s2, "BytesValue returns the last occurrence")
	vs, err := r.BytesValues(a)
	verifAssert2(err == nil, len(vs) == 2, "BytesValues returns all occurrences")
	if len(vs) == 2 {
		verifAssertBytesEq(vs[0], s1, "BytesValues[0]")
		verifAssertBytesEq(vs[1], s2, "BytesValues[1]")
	}
	verifAssert(r.Close() == nil, "Close")
	verifReach("end")
}

// long values: the length prefix of a string / bytes field and of a nested message crosses the 1-byte / 2-byte
// boundary (symbolic length <= 160, symbolic contents, no unrolling)
func H_C13_Long() {
	a, b := c13Tags()
	s := nondetBytes("s", 160)
	msg := protowire.AppendBytes(protowire.AppendTag(make([]byte, 0, 1024), protowire.Number(a), protowire.BytesType), s)
	msg = c13AppendVarintField(msg, b, 5)
	// a sub-message holding the same long value, so that its own length prefix is long too
	sub := protowire.AppendBytes(protowire.AppendTag(make([]byte, 0, 512), 2, protowire.BytesType), s)
	c := a + 2 // distinct from A and B for every choice of c13Tags
	msg = protowire.AppendBytes(protowire.AppendTag(msg, protowire.Number(c), protowire.BytesType), sub)
	def := NewDef(a, b)
	def.NestedTag(c, 2)
	def.Tags(-c)
	r := c13Decode(msg, def)
	got, err := r.BytesValue(a)
	verifAssert(err == nil, "BytesValue succeeds on a long value")
	verifAssertBytesEq(got, s, "BytesValue returns the whole value")
	str, err := r.StringValue(a)
	verifAssert(err == nil, "StringValue succeeds on a long value")
	verifAssertBytesEq([]byte(str), s, "StringValue returns the whole value")
	v, err := r.UInt64Value(b)
	verifAssert2(err == nil, v == 5, "the field after a long value")
	raw, err := r.BytesValue(-c)
	verifAssert(err == nil, "raw access to a long sub-message")
	verifAssertBytesEq(raw, sub, "raw bytes of the long sub-message")
	fd, err := r.FieldData(c, 2)
	verifAssert2(err == nil, fd != nil, "nested path into a long sub-message")
	if err == nil && fd != nil {
		nv, err := fd.BytesValue()
		verifAssert(err == nil, "nested BytesValue")
		verifAssertBytesEq(nv, s, "nested value")
	}
	verifAssert(r.Close() == nil, "Close")
	verifReach("end")
}

// ---- packed runs: packed(A)=[v1,v2], g(B), packed(A)=[v3] ----

func c13Packed(kind int) {
	a, b := c13Tags()
	v1, v2, v3 := nondetU64("v1"), nondetU64("v2"), nondetU64("v3")
	if verifTier() == 0 {
		verifAssume(v1 < 1<<14)
		verifAssume(v3 < 1<<14)
	}
	run1 := make([]byte, 0, 32)
	run2 := make([]byte, 0, 32)
	switch kind {
	case 0: // varint kinds
		run1 = protowire.AppendVarint(protowire.AppendVarint(run1, v1), v2)
		run2 = protowire.AppendVarint(run2, v3)
	case 1: // fixed32 kinds
		run1 = protowire.AppendFixed32(protowire.AppendFixed32(run1, uint32(v1)), uint32(v2))
		run2 = protowire.AppendFixed32(run2, uint32(v3))
	default: // fixed64 kinds
		run1 = protowire.AppendFixed64(protowire.AppendFixed64(run1, v1), v2)
		run2 = protowire.AppendFixed64(run2, v3)
	}
	msg := protowire.AppendBytes(protowire.AppendTag(c13Buf(), protowire.Number(a), protowire.BytesType), run1)
	msg = c13AppendVarintField(msg, b, 5)
	msg = protowire.AppendBytes(protowire.AppendTag(msg, protowire.Number(a), protowire.BytesType), run2)
	r := c13Decode(msg, NewDef(a, 77))
	switch kind {
	case 0:
		vs, err := r.UInt64Values(a)
		verifAssert2(err == nil, len(vs) == 3, "UInt64Values expands packed runs")
		if len(vs) == 3 {
			verifAssert3(vs[0] == v1, vs[1] == v2, vs[2] == v3, "UInt64Values in wire order")
		}
		ss, err := r.SInt64Values(a)
		verifAssert2(err == nil, len(ss) == 3, "SInt64Values expands packed runs")
		if len(ss) == 3 {
			verifAssert3(ss[0] == protowire.DecodeZigZag(v1), ss[1] == protowire.DecodeZigZag(v2), ss[2] == protowire.DecodeZigZag(v3), "SInt64Values in wire order")
		}
		bs, err := r.BoolValues(a)
		verifAssert2(err == nil, len(bs) == 3, "BoolValues expands packed runs")
		if len(bs) == 3 {
			verifAssert3(bs[0] == (v1 != 0), bs[1] == (v2 != 0), bs[2] == (v3 != 0), "BoolValues in wire order")
		}
		is, err := r.Int64Values(a)
		verifAssert2(err == nil, len(is) == 3, "Int64Values expands packed runs")
		if len(is) == 3 {
			verifAssert3(is[0] == int64(v1), is[1] == int64(v2), is[2] == int64(v3), "Int64Values in wire order")
		}
		_, err = r.UInt64Value(a)
		verifAssert(err != nil, "a single-value request on a packed (length-delimited) field is a wire-type mismatch")
	case 1:
		vs, err := r.Fixed32Values(a)
		verifAssert2(err == nil, len(vs) == 3, "Fixed32Values expands packed runs")
		if len(vs) == 3 {
			verifAssert3(vs[0] == uint32(v1), vs[1] == uint32(v2), vs[2] == uint32(v3), "Fixed32Values in wire order")
		}
		fs, err := r.Float32Values(a)
		verifAssert2(err == nil, len(fs) == 3, "Float32Values expands packed runs")
		if len(fs) == 3 {
			verifAssert3(math.Float32bits(fs[0]) == uint32(v1), math.Float32bits(fs[1]) == uint32(v2), math.Float32bits(fs[2]) == uint32(v3), "Float32Values in wire order")
		}
	default:
		vs, err := r.Fixed64Values(a)
		verifAssert2(err == nil, len(vs) == 3, "Fixed64Values expands packed runs")
		if len(vs) == 3 {
			verifAssert3(vs[0] == v1, vs[1] == v2, vs[2] == v3, "Fixed64Values in wire order")
		}
		fs, err := r.Float64Values(a)
		verifAssert2(err == nil, len(fs) == 3, "Float64Values expands packed runs")
		if len(fs) == 3 {
			verifAssert3(math.Float64bits(fs[0]) == v1, math.Float64bits(fs[1]) == v2, math.Float64bits(fs[2]) == v3, "Float64Values in wire order")
		}
	}
	verifAssert(r.Close() == nil, "Close")
	verifReach("end")
}

func H_C13_Packed_Varint()  { c13Packed(0) }
func H_C13_Packed_Fixed32() { c13Packed(1) }
func H_C13_Packed_Fixed64() { c13Packed(2) }

// 32-bit packed accessors with range checks
func H_C13_Packed_Int32() {
	a, _ := c13Tags()
	v1, v2 := nondetU64("v1"), nondetU64("v2")
	run := protowire.AppendVarint(protowire.AppendVarint(make([]byte, 0, 32), v1), v2)
	msg := protowire.AppendBytes(protowire.AppendTag(c13Buf(), protowire.Number(a), protowire.BytesType), run)
	r := c13Decode(msg, NewDef(a))
	is, err := r.Int32Values(a)
	if c13FitsInt32(v1) && c13FitsInt32(v2) {
		verifAssert2(err == nil, len(is) == 2, "Int32Values expands the packed run")
		if len(is) == 2 {
			verifAssert2(is[0] == int32(v1), is[1] == int32(v2), "Int32Values in wire order")
		}
	} else {
		verifAssert(err != nil, "a packed element beyond int32 is an overflow error")
	}
	us, err := r.UInt32Values(a)
	if v1 <= math.MaxUint32 && v2 <= math.MaxUint32 {
		verifAssert2(err == nil, len(us) == 2, "UInt32Values expands the packed run")
		if len(us) == 2 {
			verifAssert2(us[0] == uint32(v1), us[1] == uint32(v2), "UInt32Values in wire order")
		}
	} else {
		verifAssert(err != nil, "a packed element beyond uint32 is an overflow error")
	}
	verifAssert(r.Close() == nil, "Close")
	verifReach("end")
}

// ---- nested definitions, raw access through negative tags ----
//
// message: { A: sub1, B: 5, A: sub2 } with sub_i = { 1: x_i, 2: "s_i" }; def { A: {1, 2, 9}, -A }
// sub-messages may be empty (symbolic presence of their fields).
func c13Sub(i int) (b []byte, hasX bool, x uint64, hasS bool, s []byte) {
	hasX = nondetBoolN("hasx", i)
	hasS = nondetBoolN("hass", i)
	x = nondetU64N("x", i)
	if verifTier() == 0 {
		verifAssume(x < 1<<14)
	}
	s = nondetBytesN("s", i, 2)
	s = s[:verifConcretize(len(s))]
	b = make([]byte, 0, 32)
	if hasX {
		b = c13AppendVarintField(b, 1, x)
	}
	if hasS {
		b = protowire.AppendBytes(protowire.AppendTag(b, 2, protowire.BytesType), s)
	}
	return
}

func c13CheckSub(nr *DecodeResult, hasX bool, x uint64, hasS bool, s []byte) {
	got, err := nr.UInt64Value(1)
	if hasX {
		verifAssert2(err == nil, got == x, "nested scalar equals the sub-message's value")
	} else {
		verifAssert2(err != nil, errors.Is(err, ErrTagNotFound), "an absent nested field is not-found")
	}
	str, err := nr.StringValue(2)
	if hasS {
		verifAssert(err == nil, "nested string present")
		verifAssertBytesEq([]byte(str), s, "nested string equals the sub-message's value")
	} else {
		verifAssert2(err != nil, errors.Is(err, ErrTagNotFound), "an absent nested field is not-found")
	}
	_, err = nr.UInt64Value(9)
	verifAssert2(err != nil, errors.Is(err, ErrTagNotFound), "a declared nested tag that is absent is not-found")
	_, err = nr.UInt64Value(3)
	verifAssert2(err != nil, errors.Is(err, ErrTagNotDefined), "an undeclared nested tag is not-defined")
}

func H_C13_Nested() {
	a, b := c13Tags()
	sub1, hx1, x1, hs1, s1 := c13Sub(1)
	sub2, hx2, x2, hs2, s2 := c13Sub(2)
	msg := protowire.AppendBytes(protowire.AppendTag(c13Buf(), protowire.Number(a), protowire.BytesType), sub1)
	msg = c13AppendVarintField(msg, b, 5)
	msg = protowire.AppendBytes(protowire.AppendTag(msg, protowire.Number(a), protowire.BytesType), sub2)
	def := NewDef()
	def.NestedTag(a, 1, 2, 9)
	def.Tags(-a)
	r := c13Decode(msg, def)
	// last occurrence through NestedResult and through a tag path
	nr, err := r.NestedResult(a)
	verifAssert2(err == nil, nr != nil, "NestedResult returns the last sub-message, also when it is empty")
	if err == nil && nr != nil {
		c13CheckSub(nr, hx2, x2, hs2, s2)
	}
	fd, err := r.FieldData(a, 1)
	if hx2 {
		verifAssert2(err == nil, fd != nil, "a nested path reaches the sub-message's field")
		if err == nil && fd != nil {
			v, err := fd.UInt64Value()
			verifAssert2(err == nil, v == x2, "nested path value")
		}
	} else {
		verifAssert(err != nil, "a nested path to an absent field is an error")
	}
	// all occurrences
	nrs, err := r.NestedResults(a)
	verifAssert2(err == nil, len(nrs) == 2, "NestedResults returns every sub-message in wire order")
	if err == nil && len(nrs) == 2 {
		verifAssert2(nrs[0] != nil, nrs[1] != nil, "NestedResults elements are usable, also for empty sub-messages")
		if nrs[0] != nil && nrs[1] != nil {
			c13CheckSub(nrs[0], hx1, x1, hs1, s1)
			c13CheckSub(nrs[1], hx2, x2, hs2, s2)
		}
	}
	// raw bytes through the negative tag
	raw, err := r.BytesValue(-a)
	verifAssert(err == nil, "raw access through the negative tag")
	verifAssertBytesEq(raw, sub2, "the negative tag yields the raw bytes of the last sub-message")
	raws, err := r.BytesValues(-a)
	verifAssert2(err == nil, len(raws) == 2, "raw access to all occurrences")
	if len(raws) == 2 {
		verifAssertBytesEq(raws[0], sub1, "raw[0]")
		verifAssertBytesEq(raws[1], sub2, "raw[1]")
	}
	// nesting not declared for B / tag not declared at all
	_, err = r.NestedResult(b)
	verifAssert2(err != nil, errors.Is(err, ErrTagNotFound), "NestedResult on an undeclared tag is an error")
	verifAssert(r.Close() == nil, "Close")
	verifReach("end")
}

// requested tags above a raw+nested pair (-A and A): the next number as a varint and the first number whose key is one
// byte longer as a fixed64; whatever is kept per requested tag must stay aligned with the (deduplicated) tag list
func H_C13_Nested_Neighbours() {
	a, _ := c13Tags()
	c1, c2 := a+1, 16
	if a >= 16 {
		c2 = 2048
	}
	if a >= 2048 {
		c2 = 1 << 21
	}
	x := nondetU64("x")
	verifAssume(x < 1<<14)
	sub := c13AppendVarintField(make([]byte, 0, 16), 1, x)
	y1, y2 := nondetU64("y1"), nondetU64("y2")
	verifAssume(y1 < 1<<14)
	msg := protowire.AppendBytes(protowire.AppendTag(c13Buf(), protowire.Number(a), protowire.BytesType), sub)
	msg = c13AppendVarintField(msg, c1, y1)
	msg = protowire.AppendFixed64(protowire.AppendTag(msg, protowire.Number(c2), protowire.Fixed64Type), y2)
	msg = c13AppendVarintField(msg, c1, y1+1)
	def := NewDef()
	def.NestedTag(a, 1)
	def.Tags(-a, c1, c2)
	r := c13Decode(msg, def)
	g1, err := r.UInt64Value(c1)
	verifAssert2(err == nil, g1 == y1+1, "a requested varint tag next to a raw+nested pair (last occurrence)")
	gs, err := r.UInt64Values(c1)
	verifAssert2(err == nil, len(gs) == 2, "all occurrences")
	if len(gs) == 2 {
		verifAssert2(gs[0] == y1, gs[1] == y1+1, "in wire order")
	}
	g2, err := r.Fixed64Value(c2)
	verifAssert2(err == nil, g2 == y2, "a requested fixed64 tag with a longer key next to a raw+nested pair")
	raw, err := r.BytesValue(-a)
	verifAssert(err == nil, "raw access")
	verifAssertBytesEq(raw, sub, "raw bytes of the sub-message")
	fd, err := r.FieldData(a, 1)
	verifAssert2(err == nil, fd != nil, "nested path")
	if err == nil && fd != nil {
		v, err := fd.UInt64Value()
		verifAssert2(err == nil, v == x, "nested value")
	}
	verifAssert(r.Close() == nil, "Close")
	verifReach("end")
}

// a tag declared flat (no nesting) asked for a nested result
func H_C13_NestingNotDefined() {
	a, _ := c13Tags()
	sub, _, _, _, _ := c13Sub(1)
	msg := protowire.AppendBytes(protowire.AppendTag(c13Buf(), protowire.Number(a), protowire.BytesType), sub)
	def := NewDef(a)
	def.NestedTag(700, 1)
	r := c13Decode(msg, def)
	_, err := r.NestedResult(a)
	verifAssert2(err != nil, errors.Is(err, ErrNestingNotDefined), "a flat tag asked for a nested result yields the nesting-not-defined error")
	_, err = r.FieldData(a, 1)
	verifAssert2(err != nil, errors.Is(err, ErrTagNotFound), "a path through a flat tag is an error")
	raw, err := r.BytesValue(a)
	verifAssert(err == nil, "the flat tag still yields the raw bytes")
	verifAssertBytesEq(raw, sub, "raw bytes")
	verifAssert(r.Close() == nil, "Close")
	verifReach("end")
}

// ---- every other byte string: decoding returns an error or a result; no call panics ----

func c13Nmax() int {
	if verifTier() == 1 {
		return 6
	}
	return 4
}

func c13AllAccessors(r *DecodeResult, tag int) {
	_, _ = r.BoolValue(tag)
	_, _ = r.BoolValues(tag)
	_, _ = r.StringValue(tag)
	_, _ = r.StringValues(tag)
	_, _ = r.BytesValue(tag)
	_, _ = r.BytesValues(tag)
	_, _ = r.UInt32Value(tag)
	_, _ = r.UInt32Values(tag)
	_, _ = r.Int32Value(tag)
	_, _ = r.Int32Values(tag)
	_, _ = r.SInt32Value(tag)
	_, _ = r.SInt32Values(tag)
	_, _ = r.UInt64Value(tag)
	_, _ = r.UInt64Values(tag)
	_, _ = r.Int64Value(tag)
	_, _ = r.Int64Values(tag)
	_, _ = r.SInt64Value(tag)
	_, _ = r.SInt64Values(tag)
	_, _ = r.Fixed32Value(tag)
	_, _ = r.Fixed32Values(tag)
	_, _ = r.Fixed64Value(tag)
	_, _ = r.Fixed64Values(tag)
	_, _ = r.Float32Value(tag)
	_, _ = r.Float32Values(tag)
	_, _ = r.Float64Value(tag)
	_, _ = r.Float64Values(tag)
}

func c13Arbitrary(entry int) {
	data := nondetBytes("p", c13Nmax())
	def := NewDef(1, 2)
	def.NestedTag(3, 1)
	def.Tags(-3)
	var r *DecodeResult
	switch entry {
	case 0:
		res, err := Decode(data, def)
		if err != nil {
			verifReach("end")
			return
		}
		r = &res
	default:
		dec, err := NewDecoder(def, WithMode(csproto.DecoderMode(entry-1)))
		verifAssert2(err == nil, dec != nil, "NewDecoder accepts a valid definition")
		rr, err := dec.Decode(data)
		if err != nil || rr == nil {
			verifReach("end")
			return
		}
		r = rr
	}
	which := nondetInt("which")
	verifAssume(which >= 0)
	verifAssume(which <= 3)
	switch verifConcretize(which) {
	case 0:
		c13AllAccessors(r, 1)
	case 1:
		c13AllAccessors(r, -3)
	case 2:
		nr, err := r.NestedResult(3)
		if err == nil {
			_, _ = nr.UInt64Value(1)
			_, _ = nr.StringValues(1)
		}
		_, _ = r.FieldData(3, 1)
	default:
		nrs, err := r.NestedResults(3)
		if err == nil {
			for _, nr := range nrs {
				_, _ = nr.UInt64Value(1)
			}
		}
		r.Range(func(tag int, fd *FieldData) bool {
			if fd != nil {
				_, _ = fd.UInt64Values()
			}
			return true
		})
		_, _ = r.FieldData()
		_, _ = r.FieldData(9)
	}
	_ = r.Close()
	verifReach("end")
}

func H_C13_Arbitrary_Decode() { c13Arbitrary(0) }
func H_C13_Arbitrary_Safe()   { c13Arbitrary(1) }
func H_C13_Arbitrary_Fast()   { c13Arbitrary(2) }
