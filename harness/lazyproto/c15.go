//go:build verif

package lazyproto

import (
	"fmt"
	"sync"

	"github.com/CrowdStrike/csproto"
	"google.golang.org/protobuf/encoding/protowire"
)

// C15 — a lazy Decoder can be shared by concurrent goroutines.
//
// No interleaving is enumerated. What the solver-driven execution decides is a sufficient condition on every
// feasible single-thread path (thread-modular ownership): after NewDecoder returns, every object reachable
// from the *Decoder and every package-level variable is SHARED; objects obtained from the sync.Pool model or
// allocated by the call are OWNED by the calling goroutine. Obligation: no non-atomic, non-mutex-protected
// write targets a shared object. Together with sync.Pool's contract (an object is handed to one getter at a
// time, Put happens-before the matching Get) this excludes data races between goroutines that share only
// the Decoder. "Every goroutine observes its own values" is checked on the single-thread projection of two
// goroutines: two results are alive at the same time (Decode A, Decode B, read both, close both), under an
// adversarial pool (recycle / fresh / fork).
// An ownership violation is replayed natively by running the goroutine version of the same workload under
// the Go race detector.

func c15Interleaved(mode, policy int) {
	if verifNative() {
		c15Native(mode)
		return
	}
	verifPoolPolicy(policy)
	// buffer options are C14's subject; here: no limit, or the smallest limit that forces re-allocation
	fast := mode == 1
	opts := []Option{WithMode(csproto.DecoderMode(mode))}
	if nondetBool("limit") {
		opts = append(opts, WithMaxBufferSize(1))
	}
	dec, err := NewDecoder(c14Def(), opts...)
	verifAssert2(err == nil, dec != nil, "NewDecoder accepts the definition and options")
	verifShareRoot(dec)
	for round := 0; round < 2; round++ {
		ma := c14Build(round*2, 2, 2-round, false)
		mb := c14Build(round*2+1, 1, 1+round, false)
		ra, err := dec.Decode(ma.bytes)
		verifAssert2(err == nil, ra != nil, "Decode A")
		rb, err := dec.Decode(mb.bytes)
		verifAssert2(err == nil, rb != nil, "Decode B")
		verifAssert(ra != rb, "two live results are distinct objects")
		ka := c14Check(ra, ma, fast)
		kb := c14Check(rb, mb, fast)
		// reading B must not disturb what A exposes, and vice versa
		_ = c14Check(ra, ma, fast)
		verifAssert(rb.Close() == nil, "Close B")
		_ = c14Check(ra, ma, fast)
		verifAssert(ra.Close() == nil, "Close A")
		if !fast {
			c14Stable(ka, ma)
			c14Stable(kb, mb)
		}
	}
	verifReach("end")
}

func H_C15_Safe_Recycle() { c15Interleaved(0, 0) }
func H_C15_Fast_Recycle() { c15Interleaved(1, 0) }
func H_C15_Safe_Fresh()   { c15Interleaved(0, 1) }
func H_C15_Fast_Fresh()   { c15Interleaved(1, 1) }

func H_C15_Safe_ForkPool_Thorough() { c15Interleaved(0, 2) }
func H_C15_Fast_ForkPool_Thorough() { c15Interleaved(1, 2) }

// the pooled histories of C14 carry the same ownership obligation
func H_C15_Hist_Safe() {
	if verifNative() {
		c15Native(0)
		return
	}
	c14Hist(0, 0, c14Recycle)
}
func H_C15_Hist_Fast() {
	if verifNative() {
		c15Native(1)
		return
	}
	c14Hist(1, 0, c14Grow)
}

// c15Native is the goroutine version used to replay an ownership violation under the race detector:
// 8 goroutines share one Decoder, decode different inputs, read nested results and close.
func c15Native(mode int) {
	dec, err := NewDecoder(c14Def(), WithMode(csproto.DecoderMode(mode)), WithMaxBufferSize(1))
	if err != nil {
		panic(err)
	}
	var wg sync.WaitGroup
	errs := make(chan string, 64)
	for g := 0; g < 8; g++ {
		wg.Add(1)
		go func(g int) {
			defer wg.Done()
			for it := 0; it < 300; it++ {
				n := 1 + (g+it)%3
				b := make([]byte, 0, 64)
				for i := 0; i < n; i++ {
					b = protowire.AppendVarint(protowire.AppendTag(b, 1, protowire.VarintType), uint64(g*1000+it+i))
					sub := protowire.AppendVarint(protowire.AppendTag(nil, 1, protowire.VarintType), uint64(g*7+i))
					b = protowire.AppendBytes(protowire.AppendTag(b, 2, protowire.BytesType), sub)
				}
				r, err := dec.Decode(b)
				if err != nil || r == nil {
					errs <- fmt.Sprint("decode: ", err)
					return
				}
				vs, err := r.UInt64Values(1)
				if err != nil || len(vs) != n {
					errs <- fmt.Sprint("values: ", err, len(vs), n)
					return
				}
				for i := range vs {
					if vs[i] != uint64(g*1000+it+i) {
						errs <- "foreign value observed"
						return
					}
				}
				nrs, err := r.NestedResults(2)
				if err != nil || len(nrs) != n {
					errs <- fmt.Sprint("nested: ", err)
					return
				}
				for i, nr := range nrs {
					x, err := nr.UInt64Value(1)
					if err != nil || x != uint64(g*7+i) {
						errs <- "foreign nested value observed"
						return
					}
				}
				_ = r.Close()
			}
		}(g)
	}
	wg.Wait()
	close(errs)
	for e := range errs {
		verifAssert(false, "C15 native: "+e)
	}
}
