//go:build verif

package lazyproto

import (
	"fmt"
	"sync"

	"github.com/CrowdStrike/csproto"
	"google.golang.org/protobuf/encoding/protowire"
)

// C15 — a lazy Decoder can be shared by concurrent goroutines.
//
// No interleaving is enumerated. What the solver-driven execution decides is a sufficient condition on every
// feasible single-thread path (thread-modular ownership): after NewDecoder returns, every object reachable
// from the *Decoder and every package-level variable is SHARED; objects obtained from the sync.Pool model or
// allocated by the call are OWNED by the calling goroutine. Obligation: no non-atomic, non-mutex-protected
// write targets a shared object. Together with sync.Pool's contract (an object is handed to one getter at a
// time, Put happens-before the matching Get) this excludes data races between goroutines that share only
// the Decoder. "Every goroutine observes its own values" is checked on the single-thread projection of two
// goroutines: two results are alive at the same time (Decode A, Decode B, read both, close both), under an
// adversarial pool (recycle / fresh / fork).
// An ownership violation is replayed natively by running the goroutine version of the same workload under
// the Go race detector.

func c15Interleaved(mode, policy int) {
	if verifNative() {
		c15Native(mode)
		return
	}
	verifPoolPolicy(policy)
	// buffer options are C14's subject; here: no limit, or the smallest limit that forces re-allocation
	fast := mode == 1
	opts := []Option{WithMode(csproto.DecoderMode(mode))}
	if nondetBool("limit") {
		opts = append(opts, WithMaxBufferSize(1))
	}
	dec, err := NewDecoder(c14Def(), opts...)
	verifAssert2(err == nil, dec != nil, "NewDecoder accepts the definition and options")
	verifShareRoot(dec)
	for round := 0; round < 2; round++ {
		ma := c14Build(round*2, 2, 2-round, false)
		mb := c14Build(round*2+1, 1, 1+round, false)
		ra, err := dec.Decode(ma.bytes)
		verifAssert2(err == nil, ra != nil, "Decode A")
		rb, err := dec.Decode(mb.bytes)
		verifAssert2(err == nil, rb != nil, "Decode B")
		verifAssert(ra != rb, "two live results are distinct objects")
		ka := c14Check(ra, ma, fast)
		kb := c14Check(rb, mb, fast)
		// reading B must not disturb what A exposes, and vice versa
		_ = c14Check(ra, ma, fast)
		verifAssert(rb.Close() == nil, "Close B")
		_ = c14Check(ra, ma, fast)
		verifAssert(ra.Close() == nil, "Close A")
		if !fast {
			c14Stable(ka, ma)
			c14Stable(kb, mb)
		}
	}
	verifReach("end")
}

func H_C15_Safe_Recycle() { c15Interleaved(0, 0) }
func H_C15_Fast_Recycle() { c15Interleaved(1, 0) }
func H_C15_Safe_Fresh()   { c15Interleaved(0, 1) }
func H_C15_Fast_Fresh()   { c15Interleaved(1, 1) }

func H_C15_Safe_ForkPool_Thorough() { c15Interleaved(0, 2) }
func H_C15_Fast_ForkPool_Thorough() { c15Interleaved(1, 2) }

// the pooled histories of C14 carry the same ownership obligation
func H_C15_Hist_Safe() {
	if verifNative() {
		c15Native(0)
		return
	}
	c14Hist(0, 0, c14Recycle)
}
func H_C15_Hist_Fast() {
	if verifNative() {
		c15Native(1)
		return
	}
	c14Hist(1, 0, c14Grow)
}

// c15Native is the goroutine version used to replay an ownership violation under the race detector:
// 8 goroutines share one Decoder; each keeps two results alive at a time, decodes inputs with different
// numbers of occurrences, with empty and non-empty nested messages, reads everything back and closes.
func c15Native(mode int) {
	dec, err := NewDecoder(c14Def(), WithMode(csproto.DecoderMode(mode)), WithMaxBufferSize(1))
	if err != nil {
		panic(err)
	}
	var wg sync.WaitGroup
	errs := make(chan string, 64)
	type want struct {
		n    int
		vals []uint64
		subs []int64 // -1: empty nested message
	}
	build := func(g, it int) ([]byte, want) {
		w := want{n: 1 + (g+it)%3}
		b := make([]byte, 0, 64)
		for i := 0; i < w.n; i++ {
			v := uint64(g*100000 + it*10 + i)
			w.vals = append(w.vals, v)
			b = protowire.AppendVarint(protowire.AppendTag(b, 1, protowire.VarintType), v)
			var sub []byte
			if (g+it+i)%3 == 0 {
				w.subs = append(w.subs, -1)
			} else {
				x := int64(g*7 + i + 1)
				w.subs = append(w.subs, x)
				sub = protowire.AppendVarint(protowire.AppendTag(nil, 1, protowire.VarintType), uint64(x))
			}
			b = protowire.AppendBytes(protowire.AppendTag(b, 2, protowire.BytesType), sub)
		}
		return b, w
	}
	check := func(r *DecodeResult, w want) string {
		vs, err := r.UInt64Values(1)
		if err != nil || len(vs) != w.n {
			return fmt.Sprint("values: ", err, len(vs), w.n)
		}
		for i := range vs {
			if vs[i] != w.vals[i] {
				return "foreign value observed"
			}
		}
		nrs, err := r.NestedResults(2)
		if err != nil || len(nrs) != w.n {
			return fmt.Sprint("nested: ", err)
		}
		for i, nr := range nrs {
			x, err := nr.UInt64Value(1)
			if w.subs[i] < 0 {
				if err == nil {
					return "an empty nested message exposes a foreign value"
				}
			} else if err != nil || x != uint64(w.subs[i]) {
				return "foreign nested value observed"
			}
		}
		return ""
	}
	for g := 0; g < 8; g++ {
		wg.Add(1)
		go func(g int) {
			defer wg.Done()
			for it := 0; it < 300; it++ {
				b1, w1 := build(g, it)
				b2, w2 := build(g, it+1)
				r1, err1 := dec.Decode(b1)
				r2, err2 := dec.Decode(b2)
				if err1 != nil || err2 != nil || r1 == nil || r2 == nil {
					errs <- fmt.Sprint("decode: ", err1, err2)
					return
				}
				for _, e := range []string{check(r1, w1), check(r2, w2), check(r1, w1)} {
					if e != "" {
						errs <- e
						return
					}
				}
				_ = r2.Close()
				if e := check(r1, w1); e != "" {
					errs <- e
					return
				}
				_ = r1.Close()
			}
		}(g)
	}
	wg.Wait()
	close(errs)
	for e := range errs {
		verifAssert(false, "C15 native: "+e)
	}
}
