//go:build verif

package lazyproto

import (
	"github.com/CrowdStrike/csproto"
	"google.golang.org/protobuf/encoding/protowire"
)

// C14 — pooled lazy-decode results are isolated across reuse (bounded histories).
// C15 — ownership obligations for sharing a Decoder ride on the same executions (labels "C15: ...").
//
// History: NewDecoder(def, options) then c cycles of Decode(msg_i) -> accessors / NestedResults / Range ->
// Close. The messages of successive cycles have different shapes (more, then fewer occurrences than the
// buffer limit). The pool model hands back recycled results (policy 0), always fresh ones (policy 1) or
// forks over both at every Get (policy 2, thorough). Options: mode in {safe, fast}, WithMaxBufferSize(n)
// for n in {absent, 0, 1, 3}, WithBufferFilterFunc in {absent, cap/2, 0, -1}.

// def: tag 1 flat (uint64 values), tag 2 nested {1}, raw access to tag 2 through -2, tag 3 strings
func c14Def() Def {
	def := NewDef(1, 3)
	def.NestedTag(2, 1)
	def.Tags(-2)
	return def
}

type c14Msg struct {
	bytes []byte
	n1    int       // occurrences of tag 1
	v1    [3]uint64 // their values
	n2    int       // occurrences of nested tag 2
	x2    [3]uint64 // value of field 1 inside each nested message
	has2  [3]bool   // nested message i has field 1 (else it is empty)
	hasS  bool
	s     []byte
}

// c14Build writes a message with n1 occurrences of tag 1, n2 nested messages and optionally a string
func c14Build(cycle, n1, n2 int, withS bool) c14Msg {
	m := c14Msg{n1: n1, n2: n2, hasS: withS}
	b := make([]byte, 0, 96)
	for i := 0; i < n1; i++ {
		v := nondetU64N("v", cycle*10+i)
		verifAssume(v < 1<<7) // single-byte varints: value sizes are C13's subject, not this property's
		m.v1[i] = v
		b = protowire.AppendVarint(protowire.AppendTag(b, 1, protowire.VarintType), v)
	}
	for i := 0; i < n2; i++ {
		x := nondetU64N("x", cycle*10+i)
		verifAssume(x < 1<<7)
		m.x2[i] = x
		m.has2[i] = nondetBoolN("has", cycle*10+i)
		sub := make([]byte, 0, 8)
		if m.has2[i] {
			sub = protowire.AppendVarint(protowire.AppendTag(sub, 1, protowire.VarintType), x)
		}
		b = protowire.AppendBytes(protowire.AppendTag(b, 2, protowire.BytesType), sub)
	}
	if withS {
		s := nondetBytesN("s", cycle, 1)
		s = s[:verifConcretize(len(s))]
		m.s = s
		b = protowire.AppendBytes(protowire.AppendTag(b, 3, protowire.BytesType), s)
	}
	m.bytes = b
	return m
}

type c14Kept struct {
	nvals [3][]uint64 // slices obtained from nested results
	vals  []uint64
	str   string
	raw   []byte
	strOK bool
	rawOK bool
}

// c14Check compares every accessor with the reference content of m alone and returns values to keep
func c14Check(r *DecodeResult, m c14Msg, fast bool) c14Kept {
	var k c14Kept
	vs, err := r.UInt64Values(1)
	if m.n1 == 0 {
		verifAssert(err != nil, "tag 1 is absent from this input: not found (nothing left over from an earlier result)")
	} else {
		verifAssert2(err == nil, len(vs) == m.n1, "UInt64Values exposes exactly this input's occurrences")
		for i := 0; i < m.n1 && i < len(vs); i++ {
			verifAssert(vs[i] == m.v1[i], "UInt64Values element is this input's value")
		}
		last, err := r.UInt64Value(1)
		verifAssert2(err == nil, last == m.v1[m.n1-1], "UInt64Value is this input's last occurrence")
		k.vals = vs
	}
	nrs, err := r.NestedResults(2)
	if m.n2 == 0 {
		verifAssert(err != nil, "tag 2 is absent from this input: not found")
	} else {
		verifAssert2(err == nil, len(nrs) == m.n2, "NestedResults exposes exactly this input's sub-messages")
		for i := 0; i < m.n2 && i < len(nrs); i++ {
			x, err := nrs[i].UInt64Value(1)
			if m.has2[i] {
				verifAssert2(err == nil, x == m.x2[i], "nested value is this input's value")
				xs, err := nrs[i].UInt64Values(1)
				verifAssert2(err == nil, len(xs) == 1, "nested slice accessor")
				if len(xs) == 1 {
					verifAssert(xs[0] == m.x2[i], "nested slice element is this input's value")
					k.nvals[i] = xs
				}
			} else {
				verifAssert(err != nil, "an empty nested message exposes nothing (no stale data)")
			}
		}
		raw, err := r.BytesValue(-2)
		verifAssert(err == nil, "raw access to the last nested message")
		if err == nil {
			k.raw, k.rawOK = raw, true
		}
	}
	str, err := r.StringValue(3)
	if m.hasS {
		verifAssert(err == nil, "string present")
		verifAssertBytesEq([]byte(str), m.s, "StringValue is this input's string")
		k.str, k.strOK = str, true
	} else {
		verifAssert(err != nil, "tag 3 is absent from this input: not found")
	}
	seen := 0
	r.Range(func(tag int, fd *FieldData) bool {
		seen++
		if tag == 1 {
			verifAssert((fd != nil) == (m.n1 > 0), "Range reports tag 1 present iff this input has it")
		}
		return true
	})
	verifAssert(seen == 3 || r == nil, "Range visits every declared tag once")
	return k
}

// c14Stable: in safe mode values handed out earlier are unchanged (same contents)
func c14Stable(k c14Kept, m c14Msg) {
	for i := 0; i < m.n1 && i < len(k.vals); i++ {
		verifAssert(k.vals[i] == m.v1[i], "safe mode: a slice handed out earlier is intact after Close and later decodes")
	}
	for i := 0; i < m.n2; i++ {
		if m.has2[i] && len(k.nvals[i]) == 1 {
			verifAssert(k.nvals[i][0] == m.x2[i], "safe mode: a slice handed out by a nested result is intact after Close and later decodes")
		}
	}
	if k.strOK {
		verifAssertBytesEq([]byte(k.str), m.s, "safe mode: a string handed out earlier is intact after Close and later decodes")
	}
	if k.rawOK && m.n2 > 0 {
		want := make([]byte, 0, 8)
		if m.has2[m.n2-1] {
			want = protowire.AppendVarint(protowire.AppendTag(want, 1, protowire.VarintType), m.x2[m.n2-1])
		}
		verifAssertBytesEq(k.raw, want, "safe mode: bytes handed out earlier are intact after Close and later decodes")
	}
}

func c14Options(mode int) ([]Option, bool) {
	opts := []Option{WithMode(csproto.DecoderMode(mode))}
	mb := nondetInt("maxbuf") // -1: option absent
	verifAssume(mb == -1 || mb == 0 || mb == 1 || mb == 3)
	mb = verifConcretize(mb)
	if mb >= 0 {
		opts = append(opts, WithMaxBufferSize(mb))
	}
	fl := nondetInt("filter") // 0: absent, 1: cap/2, 2: always 0, 3: always -1 (ignored)
	verifAssume(fl >= 0)
	verifAssume(fl <= 3)
	switch verifConcretize(fl) {
	case 1:
		opts = append(opts, WithBufferFilterFunc(func(c int) int { return c / 2 }))
	case 2:
		opts = append(opts, WithBufferFilterFunc(func(c int) int { return 0 }))
	case 3:
		opts = append(opts, WithBufferFilterFunc(func(c int) int { return -1 }))
	}
	return opts, mode == 1
}

// shapes per cycle: (n1, n2, string)
func c14Hist(mode, policy int, shapes [][3]int) {
	verifPoolPolicy(policy)
	opts, fast := c14Options(mode)
	dec, err := NewDecoder(c14Def(), opts...)
	verifAssert2(err == nil, dec != nil, "NewDecoder accepts the definition and options")
	verifShareRoot(dec) // C15: everything reachable from the Decoder is shared between goroutines from here on
	var kept [4]c14Kept
	var msgs [4]c14Msg
	for c, sh := range shapes {
		m := c14Build(c, sh[0], sh[1], sh[2] != 0)
		msgs[c] = m
		r, err := dec.Decode(m.bytes)
		// Decode of the empty message yields a nil result, which is documented to be usable (every method is nil-safe)
		verifAssert2(err == nil, r != nil || len(m.bytes) == 0, "Decode accepts a well-formed message")
		kept[c] = c14Check(r, m, fast)
		verifAssert(r.Close() == nil, "Close")
		// closing twice must be harmless for a top-level result? (not claimed: documented single Close)
		if !fast {
			for p := 0; p <= c; p++ {
				c14Stable(kept[p], msgs[p])
			}
		}
	}
	verifReach("end")
}

// more occurrences first, then fewer (stale data would show), then more again (buffer regrowth after trunc)
var (
	c14Recycle = [][3]int{{2, 2, 1}, {1, 1, 0}}
	c14Shrink  = [][3]int{{3, 2, 1}, {0, 0, 0}, {1, 1, 0}}
	c14Grow    = [][3]int{{0, 1, 0}, {3, 3, 1}, {2, 0, 0}}
	c14Three   = [][3]int{{2, 2, 1}, {1, 1, 0}, {2, 1, 1}}
)

func H_C14_Safe_Recycle() { c14Hist(0, 0, c14Recycle) }
func H_C14_Fast_Recycle() { c14Hist(1, 0, c14Recycle) }
func H_C14_Safe_Fresh()   { c14Hist(0, 1, c14Recycle) }
func H_C14_Fast_Fresh()   { c14Hist(1, 1, c14Recycle) }
func H_C14_Safe_Shrink()  { c14Hist(0, 0, c14Shrink) }
func H_C14_Fast_Shrink()  { c14Hist(1, 0, c14Shrink) }
func H_C14_Safe_Grow()    { c14Hist(0, 0, c14Grow) }
func H_C14_Fast_Grow()    { c14Hist(1, 0, c14Grow) }

func H_C14_Safe_ForkPool_Thorough() { c14Hist(0, 2, c14Three) }
func H_C14_Fast_ForkPool_Thorough() { c14Hist(1, 2, c14Three) }

// a decode that FAILS half-way (valid fields followed by a truncated one) must not leave anything behind in
// the pooled result that the next decode of the same Decoder could expose
func c14HistErr(mode, policy int) {
	verifPoolPolicy(policy)
	opts, fast := c14Options(mode)
	dec, err := NewDecoder(c14Def(), opts...)
	verifAssert2(err == nil, dec != nil, "NewDecoder accepts the definition and options")
	verifShareRoot(dec)
	// cycle 0: a valid message, so that the pool holds a used result
	m0 := c14Build(0, 2, 1, false)
	r, err := dec.Decode(m0.bytes)
	verifAssert2(err == nil, r != nil, "Decode accepts a well-formed message")
	_ = c14Check(r, m0, fast)
	verifAssert(r.Close() == nil, "Close")
	// cycle 1: well-formed fields followed by a truncated length-delimited field
	bad := c14Build(1, 2, 1, false)
	trunc := nondetInt("trunc_tag")
	verifAssume(trunc >= 1)
	verifAssume(trunc <= 3)
	broken := append(append([]byte{}, bad.bytes...), byte(verifConcretize(trunc))<<3|2, 0x05, 0x61)
	r, err = dec.Decode(broken)
	verifAssert2(err != nil, r == nil, "a truncated message is rejected")
	// cycle 2: a smaller valid message must expose only its own data
	m2 := c14Build(2, 1, 1, false)
	r, err = dec.Decode(m2.bytes)
	verifAssert2(err == nil, r != nil, "Decode accepts a well-formed message after a failed one")
	_ = c14Check(r, m2, fast)
	verifAssert(r.Close() == nil, "Close")
	// and an input that lacks the tags altogether
	m3 := c14Build(3, 0, 0, true)
	r, err = dec.Decode(m3.bytes)
	verifAssert2(err == nil, r != nil, "Decode accepts a message without the repeated tags")
	_ = c14Check(r, m3, fast)
	verifAssert(r.Close() == nil, "Close")
	verifReach("end")
}

func H_C14_Safe_AfterError() { c14HistErr(0, 0) }
func H_C14_Fast_AfterError() { c14HistErr(1, 0) }
