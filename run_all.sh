#!/bin/bash
# runs every registered quick (or thorough) check in sequence; summary at the end
tier=${1:-quick}
cd /verif
for p in $(python3 -c "import json;print(' '.join(c['property_id'] for c in json.load(open('MANIFEST.json'))['checks']))"); do
  s=$(date +%s)
  ./bin/vsym check $p --tier $tier > /tmp/run_$p.log 2>&1
  rc=$?
  echo "$p exit=$rc $(( $(date +%s) - s ))s $(tail -1 /tmp/run_$p.log)"
done
