module verifcorpus/gen

go 1.21

require google.golang.org/protobuf v1.36.4
