// corpusgen drives protoc plug-ins without protoc: it reads FileDescriptorProto text files, assembles a
// CodeGeneratorRequest, runs the plug-in binary and writes the files of the response.
//
//	corpusgen -schemas a.textpb,b.textpb -generate a.proto -plugin /path/protoc-gen-x -param k=v,k=v -out dir
package main

import (
	"bytes"
	"flag"
	"fmt"
	"os"
	"os/exec"
	"path/filepath"
	"strings"

	"google.golang.org/protobuf/encoding/prototext"
	"google.golang.org/protobuf/proto"
	"google.golang.org/protobuf/types/descriptorpb"
	"google.golang.org/protobuf/types/pluginpb"
)

func main() {
	schemas := flag.String("schemas", "", "comma separated FileDescriptorProto text files (dependencies first)")
	generate := flag.String("generate", "", "comma separated proto file names to generate")
	plugin := flag.String("plugin", "", "plug-in binary")
	param := flag.String("param", "", "plug-in parameter string")
	out := flag.String("out", ".", "output directory (files are written by base name)")
	flag.Parse()
	req := &pluginpb.CodeGeneratorRequest{Parameter: proto.String(*param), FileToGenerate: strings.Split(*generate, ",")}
	req.CompilerVersion = &pluginpb.Version{Major: proto.Int32(5), Minor: proto.Int32(29), Patch: proto.Int32(0)}
	for _, f := range strings.Split(*schemas, ",") {
		b, err := os.ReadFile(f)
		if err != nil {
			fail(err)
		}
		var fd descriptorpb.FileDescriptorProto
		if err := prototext.Unmarshal(b, &fd); err != nil {
			fail(fmt.Errorf("%s: %v", f, err))
		}
		req.ProtoFile = append(req.ProtoFile, &fd)
	}
	in, err := proto.Marshal(req)
	if err != nil {
		fail(err)
	}
	cmd := exec.Command(*plugin)
	cmd.Stdin = bytes.NewReader(in)
	var stdout, stderr bytes.Buffer
	cmd.Stdout, cmd.Stderr = &stdout, &stderr
	if err := cmd.Run(); err != nil {
		fail(fmt.Errorf("plug-in failed: %v: %s", err, stderr.String()))
	}
	var resp pluginpb.CodeGeneratorResponse
	if err := proto.Unmarshal(stdout.Bytes(), &resp); err != nil {
		fail(err)
	}
	if resp.Error != nil {
		fail(fmt.Errorf("plug-in error: %s", resp.GetError()))
	}
	os.MkdirAll(*out, 0o755)
	for _, f := range resp.File {
		p := filepath.Join(*out, filepath.Base(f.GetName()))
		if err := os.WriteFile(p, []byte(f.GetContent()), 0o644); err != nil {
			fail(err)
		}
		fmt.Println("wrote", p)
	}
}

func fail(err error) {
	fmt.Fprintln(os.Stderr, "corpusgen:", err)
	os.Exit(1)
}
