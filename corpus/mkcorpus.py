#!/usr/bin/env python3
"""Generates the schema corpus (FileDescriptorProto text) and the per-field harness code for the
generated-code properties (C04-C10, C17) from one table of kinds.

    python3 corpus/mkcorpus.py        # rewrites corpus/schemas/*.textpb and harness/p3/gen_*.go, harness/p2/gen_*.go

The output is committed; the *generated fast-marshal code* is produced at check time from these schemas by the
plug-in built from /repo's working tree.
"""
import os

ROOT = os.path.dirname(os.path.abspath(__file__))
VERIF = os.path.dirname(ROOT)

# name, proto TYPE, Go type, wire ("varint","fixed32","fixed64","bytes"), class
KINDS = [
    ("Int32", "TYPE_INT32", "int32", "varint"),
    ("Int64", "TYPE_INT64", "int64", "varint"),
    ("Uint32", "TYPE_UINT32", "uint32", "varint"),
    ("Uint64", "TYPE_UINT64", "uint64", "varint"),
    ("Sint32", "TYPE_SINT32", "int32", "varint"),
    ("Sint64", "TYPE_SINT64", "int64", "varint"),
    ("Fixed32", "TYPE_FIXED32", "uint32", "fixed32"),
    ("Fixed64", "TYPE_FIXED64", "uint64", "fixed64"),
    ("Sfixed32", "TYPE_SFIXED32", "int32", "fixed32"),
    ("Sfixed64", "TYPE_SFIXED64", "int64", "fixed64"),
    ("Float", "TYPE_FLOAT", "float32", "fixed32"),
    ("Double", "TYPE_DOUBLE", "float64", "fixed64"),
    ("Bool", "TYPE_BOOL", "bool", "varint"),
    ("Enum", "TYPE_ENUM", "E", "varint"),
    ("String", "TYPE_STRING", "string", "bytes"),
    ("Bytes", "TYPE_BYTES", "[]byte", "bytes"),
]
FNUMS = [1, 15, 16, 2047, 2048, 536870911]

WT = {"varint": "protowire.VarintType", "fixed32": "protowire.Fixed32Type", "fixed64": "protowire.Fixed64Type", "bytes": "protowire.BytesType"}


def nondet(kind, name_expr, idx=None):
    """Go expression producing a symbolic value of the kind's Go type."""
    k, _, gt, _ = kind
    n = name_expr
    def call(fn):
        return f'{fn}N({n}, {idx})' if idx is not None else f'{fn}({n})'
    if k in ("Int32", "Sint32", "Sfixed32"):
        return call("nondetI32")
    if k in ("Int64", "Sint64", "Sfixed64"):
        return call("nondetI64")
    if k in ("Uint32", "Fixed32"):
        return call("nondetU32")
    if k in ("Uint64", "Fixed64"):
        return call("nondetU64")
    if k == "Float":
        return f'math.Float32frombits({call("nondetU32")})'
    if k == "Double":
        return f'math.Float64frombits({call("nondetU64")})'
    if k == "Bool":
        return call("nondetBool")
    if k == "Enum":
        return f'E({call("nondetI32")})'
    if k == "String":
        return f'string(pbBytesN({n}, {idx}))' if idx is not None else f'string(pbBytes({n}))'
    if k == "Bytes":
        return f'pbBytesN({n}, {idx})' if idx is not None else f'pbBytes({n})'
    raise ValueError(k)


def append_value(kind, b, v):
    """Go statement(s) appending the wire value of v (without key) to slice b."""
    k = kind[0]
    if k in ("Int32", "Enum"):
        return f'{b} = protowire.AppendVarint({b}, uint64(int64({v})))'
    if k == "Int64":
        return f'{b} = protowire.AppendVarint({b}, uint64({v}))'
    if k == "Uint32":
        return f'{b} = protowire.AppendVarint({b}, uint64({v}))'
    if k == "Uint64":
        return f'{b} = protowire.AppendVarint({b}, {v})'
    if k == "Sint32":
        return f'{b} = protowire.AppendVarint({b}, protowire.EncodeZigZag(int64({v})))'
    if k == "Sint64":
        return f'{b} = protowire.AppendVarint({b}, protowire.EncodeZigZag({v}))'
    if k == "Fixed32":
        return f'{b} = protowire.AppendFixed32({b}, {v})'
    if k == "Sfixed32":
        return f'{b} = protowire.AppendFixed32({b}, uint32({v}))'
    if k == "Float":
        return f'{b} = protowire.AppendFixed32({b}, math.Float32bits({v}))'
    if k == "Fixed64":
        return f'{b} = protowire.AppendFixed64({b}, {v})'
    if k == "Sfixed64":
        return f'{b} = protowire.AppendFixed64({b}, uint64({v}))'
    if k == "Double":
        return f'{b} = protowire.AppendFixed64({b}, math.Float64bits({v}))'
    if k == "Bool":
        return f'{b} = protowire.AppendVarint({b}, verifB2U({v}))'
    if k == "String":
        return f'{b} = protowire.AppendString({b}, {v})'
    if k == "Bytes":
        return f'{b} = protowire.AppendBytes({b}, {v})'
    raise ValueError(k)


def nonzero(kind, v):
    """proto3 implicit presence: the value differs from the default (floats: by bit pattern, -0.0 excluded by the harness)."""
    k = kind[0]
    if k == "Bool":
        return v
    if k == "String" or k == "Bytes":
        return f'len({v}) > 0'
    if k == "Float":
        return f'math.Float32bits({v}) != 0'
    if k == "Double":
        return f'math.Float64bits({v}) != 0'
    return f'{v} != 0'


def eq(kind, a, b):
    k = kind[0]
    if k == "Float":
        return f'math.Float32bits({a}) == math.Float32bits({b})'
    if k == "Double":
        return f'math.Float64bits({a}) == math.Float64bits({b})'
    if k == "String":
        return f'verifBytesEq([]byte({a}), []byte({b}))'
    if k == "Bytes":
        return f'verifBytesEq({a}, {b})'
    return f'{a} == {b}'


def is_numeric(kind):
    return kind[3] != "bytes"


# ---------------------------------------------------------------- schemas

def field(name, num, typ, label="LABEL_OPTIONAL", type_name=None, packed=None, oneof=None, proto3opt=False):
    s = f'  field {{ name: "{name}" number: {num} type: {typ} label: {label}'
    if type_name:
        s += f' type_name: "{type_name}"'
    if oneof is not None:
        s += f' oneof_index: {oneof}'
    if proto3opt:
        s += ' proto3_optional: true'
    if packed is not None:
        s += f' options {{ packed: {"true" if packed else "false"} }}'
    s += ' json_name: "%s" }\n' % name
    return s


def p3_schema():
    out = ['name: "p3.proto"\npackage: "vt.p3"\nsyntax: "proto3"\noptions { go_package: "verifcorpus/p3" }\n']
    out.append('enum_type { name: "E" value { name: "E0" number: 0 } value { name: "E1" number: 1 } value { name: "E5" number: 5 } value { name: "EN" number: -2 } }\n')
    out.append('message_type {\n  name: "Leaf"\n' + field("a", 1, "TYPE_INT32") + field("s", 2, "TYPE_STRING") + '}\n')
    msgs = {}
    for i, kind in enumerate(KINDS):
        k, typ, gt, wire = kind
        nf = FNUMS[i % len(FNUMS)]
        tn = ".vt.p3.E" if k == "Enum" else None
        fields = [("f", nf, {}), ("o", 3, {"proto3opt": True, "oneof": 0}), ("r", 4, {"label": "LABEL_REPEATED"})]
        if is_numeric(kind):
            fields.append(("u", 5, {"label": "LABEL_REPEATED", "packed": False}))
        fields.sort(key=lambda f: f[1])
        s = f'message_type {{\n  name: "S{k}"\n'
        for name, num, kw in fields:
            s += field(name, num, typ, type_name=tn, **kw)
        s += '  oneof_decl { name: "_o" }\n}\n'
        out.append(s)
        msgs[k] = dict(fields=[(n, num) for n, num, _ in fields], nf=nf)
    # messages
    out.append('message_type {\n  name: "Node"\n' + field("v", 1, "TYPE_INT32") + field("next", 2, "TYPE_MESSAGE", type_name=".vt.p3.Node") +
               field("kids", 3, "TYPE_MESSAGE", label="LABEL_REPEATED", type_name=".vt.p3.Node") + '}\n')
    out.append('message_type {\n  name: "Msgs"\n' + field("m", 1, "TYPE_MESSAGE", type_name=".vt.p3.Leaf") +
               field("rm", 2, "TYPE_MESSAGE", label="LABEL_REPEATED", type_name=".vt.p3.Leaf") + field("tail", 3, "TYPE_INT32") + '}\n')
    # oneof
    one = 'message_type {\n  name: "One"\n'
    one += field("i", 1, "TYPE_INT32", oneof=0) + field("s", 2, "TYPE_STRING", oneof=0) + field("b", 3, "TYPE_BYTES", oneof=0)
    one += field("l", 4, "TYPE_MESSAGE", type_name=".vt.p3.Leaf", oneof=0) + field("t", 5, "TYPE_BOOL", oneof=0)
    one += field("sf", 6, "TYPE_SFIXED32", oneof=0) + field("d", 7, "TYPE_DOUBLE", oneof=0) + field("e", 8, "TYPE_ENUM", type_name=".vt.p3.E", oneof=0)
    one += field("z", 9, "TYPE_SINT64", oneof=0) + field("u", 2048, "TYPE_UINT64", oneof=0)
    one += '  oneof_decl { name: "c" }\n}\n'
    out.append(one)
    # maps
    def mapentry(name, ktyp, vtyp, vtn=None):
        return ('  nested_type {\n    name: "%s"\n  ' % name + field("key", 1, ktyp) + '  ' + field("value", 2, vtyp, type_name=vtn) +
                '    options { map_entry: true }\n  }\n')
    maps = [("ss", 1, "SsEntry", "TYPE_STRING", "TYPE_SINT32", None), ("is", 2, "IsEntry", "TYPE_INT32", "TYPE_STRING", None),
            ("ub", 3, "UbEntry", "TYPE_UINT64", "TYPE_BYTES", None), ("sl", 4, "SlEntry", "TYPE_STRING", "TYPE_MESSAGE", ".vt.p3.Leaf"),
            ("fd", 5, "FdEntry", "TYPE_SFIXED32", "TYPE_DOUBLE", None), ("ie", 6, "IeEntry", "TYPE_INT64", "TYPE_ENUM", ".vt.p3.E")]
    m = 'message_type {\n  name: "Maps"\n'
    for name, num, ent, kt, vt, vtn in maps:
        m += field(name, num, "TYPE_MESSAGE", label="LABEL_REPEATED", type_name=".vt.p3.Maps." + ent)
    for name, num, ent, kt, vt, vtn in maps:
        m += mapentry(ent, kt, vt, vtn)
    m += '}\n'
    out.append(m)
    out.append('message_type {\n  name: "Mix"\n' + field("a", 1, "TYPE_INT32") + field("b", 2, "TYPE_STRING") +
               field("c", 3, "TYPE_UINT32", label="LABEL_REPEATED") + field("d", 4, "TYPE_MESSAGE", type_name=".vt.p3.Leaf") +
               field("e", 5, "TYPE_BOOL") + field("g", 6, "TYPE_BYTES") + '}\n')
    return "".join(out), msgs


def p2_schema():
    out = ['name: "p2.proto"\npackage: "vt.p2"\nsyntax: "proto2"\noptions { go_package: "verifcorpus/p2" }\n']
    out.append('enum_type { name: "E" value { name: "E0" number: 0 } value { name: "E1" number: 1 } value { name: "E5" number: 5 } value { name: "EN" number: -2 } }\n')
    out.append('message_type {\n  name: "Leaf"\n' + field("a", 1, "TYPE_INT32") + field("s", 2, "TYPE_STRING") + '}\n')
    msgs = {}
    for i, kind in enumerate(KINDS):
        k, typ, gt, wire = kind
        nf = FNUMS[(i + 2) % len(FNUMS)]
        tn = ".vt.p2.E" if k == "Enum" else None
        fields = [("o", nf, {}), ("r", 4, {"label": "LABEL_REPEATED"})]
        if is_numeric(kind):
            fields.append(("p", 5, {"label": "LABEL_REPEATED", "packed": True}))
        fields.sort(key=lambda f: f[1])
        s = f'message_type {{\n  name: "T{k}"\n'
        for name, num, kw in fields:
            s += field(name, num, typ, type_name=tn, **kw)
        s += '}\n'
        out.append(s)
        msgs[k] = dict(fields=[(n, num) for n, num, _ in fields], nf=nf)
    out.append('message_type {\n  name: "Req1"\n' + field("a", 1, "TYPE_INT32", label="LABEL_REQUIRED") + '}\n')
    out.append('message_type {\n  name: "Req2"\n' + field("s", 1, "TYPE_STRING", label="LABEL_REQUIRED") +
               field("l", 2, "TYPE_MESSAGE", label="LABEL_REQUIRED", type_name=".vt.p2.Leaf") + field("o", 3, "TYPE_INT32") +
               field("b", 4, "TYPE_BYTES", label="LABEL_REQUIRED") + '}\n')
    out.append('message_type {\n  name: "ReqNest"\n' + field("child", 1, "TYPE_MESSAGE", type_name=".vt.p2.Req1") +
               field("kids", 2, "TYPE_MESSAGE", label="LABEL_REPEATED", type_name=".vt.p2.Req1") + field("x", 3, "TYPE_INT32") + '}\n')
    out.append('message_type {\n  name: "Msgs"\n' + field("m", 1, "TYPE_MESSAGE", type_name=".vt.p2.Leaf") +
               field("rm", 2, "TYPE_MESSAGE", label="LABEL_REPEATED", type_name=".vt.p2.Leaf") + field("tail", 3, "TYPE_INT32") + '}\n')
    # proto2 extensions: one extendable message per kind, extended from the scope of a second message (the only
    # place the generator looks for extensions). uint32 and enum extensions are left out: the generator emits
    # non-compiling code for the first and fails on the second (C16, not claimed).
    for i, kind in enumerate(EXT_KINDS):
        k, typ, gt, wire = kind
        out.append('message_type {\n  name: "X%s"\n' % k + field("a", 1, "TYPE_INT32") + '  extension_range { start: 100 end: 536870912 }\n}\n')
        out.append('message_type {\n  name: "X%sScope"\n' % k + extension("x", EXT_NUMS[i % len(EXT_NUMS)], typ, ".vt.p2.X" + k) + '}\n')
    out.append('message_type {\n  name: "XAll"\n' + field("a", 1, "TYPE_INT32") + '  extension_range { start: 100 end: 200 }\n}\n')
    out.append('message_type {\n  name: "XAllScope"\n' + extension("i", 100, "TYPE_INT32", ".vt.p2.XAll") + extension("s", 101, "TYPE_STRING", ".vt.p2.XAll") +
               extension("m", 150, "TYPE_MESSAGE", ".vt.p2.XAll", type_name=".vt.p2.Leaf") + '}\n')
    return "".join(out), msgs


EXT_KINDS = [k for k in KINDS if k[0] not in ("Uint32", "Enum")]
EXT_NUMS = [100, 2047, 2048, 536870911]


def extension(name, num, typ, extendee, type_name=None):
    s = f'  extension {{ name: "{name}" number: {num} type: {typ} label: LABEL_OPTIONAL extendee: "{extendee}"'
    if type_name:
        s += f' type_name: "{type_name}"'
    return s + ' json_name: "%s" }\n' % name


# ---------------------------------------------------------------- harness code

HEADER = '''//go:build verif

// Code generated by /verif/corpus/mkcorpus.py. DO NOT EDIT.

package %s

import (
	"math"

	"google.golang.org/protobuf/encoding/protowire"
)

var _ = math.MaxInt32
var _ = protowire.VarintType

'''


def gofield(name):
    return name[0].upper() + name[1:]


def gen_kind_helpers(pkg, prefix, kind, info, syntax):
    """mk_/exp_ helpers for one per-kind message."""
    k, typ, gt, wire = kind
    msg = prefix + k
    L = []
    nums = dict(info["fields"])
    wt = WT[wire]

    def key(num, w=None):
        return f'b = protowire.AppendTag(b, {num}, {w or wt})'

    # --- setters of one symbolic field
    if syntax == "proto3":
        L.append(f'func mk_{msg}_F(m *{msg}, pfx string) {{')
        L.append(f'\tm.F = {nondet(kind, "pfx+" + chr(34) + "f" + chr(34))}')
        if k == "Float":
            L.append('\tverifAssume(math.Float32bits(m.F) != 0x80000000) // -0.0: proto.Equal treats it as 0, outside the claim')
        if k == "Double":
            L.append('\tverifAssume(math.Float64bits(m.F) != 0x8000000000000000) // -0.0: proto.Equal treats it as 0, outside the claim')
        L.append('}')
    # optional (pointer; bytes: nil vs non-nil slice)
    L.append(f'func mk_{msg}_O(m *{msg}, pfx string) {{')
    L.append('\tif nondetBool(pfx + "has_o") {')
    if k == "Bytes":
        L.append(f'\t\tm.O = pbBytesNonNil(pfx + "o")')
    else:
        L.append(f'\t\tv := {nondet(kind, "pfx+" + chr(34) + "o" + chr(34))}\n\t\tm.O = &v')
    L.append('\t}\n}')
    reps = ["R"] + (["U"] if syntax == "proto3" and is_numeric(kind) else []) + (["P"] if syntax == "proto2" and is_numeric(kind) else [])
    for rf in reps:
        L.append(f'func mk_{msg}_{rf}(m *{msg}, pfx string, n int) {{')
        L.append(f'\tm.{rf} = make([]{gt}, n)')
        L.append(f'\tfor i := range m.{rf} {{')
        L.append(f'\t\tm.{rf}[i] = {nondet(kind, "pfx+" + chr(34) + rf.lower() + chr(34), "i")}')
        L.append('\t}\n}')

    # --- expected canonical bytes (spec-derived, written with the protowire reference), fields in number order
    # --- small-value restriction used by the all-fields harness (one varint size class per value)
    L.append(f'func pbSmall_{msg}(m *{msg}) {{')
    if wire == "varint" and k != "Bool":
        def small(v):
            return f'verifAssume({v} >= 0)\n\tverifAssume({v} < 64)'
        if syntax == "proto3":
            L.append('\t' + small("m.F"))
        L.append('\tif m.O != nil {\n\t' + small("*m.O").replace("\n\t", "\n\t\t") + '\n\t}')
        for rf in reps:
            L.append(f'\tfor _, v := range m.{rf} {{\n\t\t' + small("v").replace("\n\t", "\n\t\t") + '\n\t}')
    L.append('}')
    L.append(f'// exp_{msg} appends the canonical encoding of m: what a conforming writer emits for these contents')
    L.append(f'func exp_{msg}(b []byte, m *{msg}) []byte {{')
    for name, num in info["fields"]:
        g = gofield(name)
        if name == "f":
            L.append(f'\tif {nonzero(kind, "m.F")} {{')
            L.append('\t\t' + key(num))
            L.append('\t\t' + append_value(kind, "b", "m.F"))
            L.append('\t}')
        elif name == "o":
            if k == "Bytes":
                L.append('\tif m.O != nil {')
                L.append('\t\t' + key(num))
                L.append('\t\t' + append_value(kind, "b", "m.O"))
            else:
                L.append('\tif m.O != nil {')
                L.append('\t\t' + key(num))
                L.append('\t\t' + append_value(kind, "b", "*m.O"))
            L.append('\t}')
        else:
            packed = is_numeric(kind) and ((syntax == "proto3" and name == "r") or (syntax == "proto2" and name == "p"))
            if packed:
                L.append(f'\tif len(m.{g}) > 0 {{')
                L.append('\t\tpl := make([]byte, 0, 512)')
                L.append(f'\t\tfor _, v := range m.{g} {{')
                L.append('\t\t\t' + append_value(kind, "pl", "v"))
                L.append('\t\t}')
                L.append('\t\t' + key(num, "protowire.BytesType"))
                L.append('\t\tb = protowire.AppendBytes(b, pl)')
                L.append('\t}')
            else:
                L.append(f'\tfor _, v := range m.{g} {{')
                L.append('\t\t' + key(num))
                L.append('\t\t' + append_value(kind, "b", "v"))
                L.append('\t}')
    L.append('\treturn b\n}')
    return "\n".join(L) + "\n\n"


def count_expr(kind, long=False):
    k, typ, gt, wire = kind
    if long:
        if wire == "fixed32":
            return 'pbCountIn("n", 31, 33)'
        if wire == "fixed64":
            return 'pbCountIn("n", 15, 17)'
        if k == "Bool":
            return 'pbCountIn("n", 127, 129)'
    if wire == "varint" and k != "Bool":
        if gt in ("int64", "uint64"):
            return 'pbCount("n", 1, 2)'
        return 'pbCount("n", 2, 3)'
    if wire == "bytes":
        return 'pbCount("n", 2, 3)'
    return 'pbCount("n", 3, 6)'


def gen_kind_harnesses(prefix, kind, info, syntax):
    k, typ, gt, wire = kind
    msg = prefix + k
    L = []
    fields = []  # (harness suffix, setup template with {m} {p} placeholders)
    if syntax == "proto3":
        fields.append(("F", "mk_%s_F({m}, {p})" % msg))
    fields.append(("O", "mk_%s_O({m}, {p})" % msg))
    reps = ["R"] + (["U"] if syntax == "proto3" and is_numeric(kind) else []) + (["P"] if syntax == "proto2" and is_numeric(kind) else [])
    for rf in reps:
        fields.append((rf, "mk_%s_%s({m}, {p}, %s)" % (msg, rf, count_expr(kind).replace('"n"', '{p}+"n%s"' % rf.lower()))))
    for rf in reps:
        if wire in ("fixed32", "fixed64") or k == "Bool":
            fields.append((rf + "Long", "mk_%s_%s({m}, {p}, %s)" % (msg, rf, count_expr(kind, True).replace('"n"', '{p}+"n%s"' % rf.lower()))))
    small = []
    for n, t in fields:
        if n.endswith("Long"):
            continue
        small.append(t.replace("2, 3)", "1, 1)").replace("3, 6)", "1, 2)").replace("1, 2)", "1, 1)"))
    fields.append(("All", "; ".join(small) + "; pbSmall_%s({m})" % msg))
    for fname, tmpl in fields:
        setup = tmpl.format(m="m", p='""')
        L.append(f'func H_C04_{msg}_{fname}() {{\n\tm := &{msg}{{}}\n\t{setup}\n\tpbC04(m)\n}}')
        L.append(f'func H_C05_{msg}_{fname}() {{\n\tm := &{msg}{{}}\n\t{setup}\n\tpbC05(m, exp_{msg}(pbBuf(), m))\n}}')
        if not fname.endswith("Long"):
            sa = tmpl.format(m="m", p='"a_"')
            sb = tmpl.format(m="m2", p='"b_"')
            L.append(f'func H_C09_{msg}_{fname}() {{\n\tm := &{msg}{{}}\n\t{sa}\n\t_ = m.Size() // the size cache now holds Size(A)\n\tm2 := &{msg}{{}}\n\t{sb}\n\tpbAssign_{msg}(m, m2) // mutate through the fields: contents are B, nothing invalidates the cache\n\tpbC09(m, exp_{msg}(pbBuf(), m2))\n}}')
    allt = [t for n, t in fields if n == "All"][0]
    L.append(f'func H_C09_Own_{msg}() {{\n\tm := &{msg}{{}}\n\t' + allt.format(m="m", p='""') + '\n\tpbC09Own(m)\n}')
    L.append(f'// pbAssign_{msg} gives dst the contents of src field by field (what a program mutating the message does)')
    L.append(f'func pbAssign_{msg}(dst, src *{msg}) {{')
    for name, num in info["fields"]:
        g = gofield(name)
        L.append(f'\tdst.{g} = src.{g}')
    L.append('}')
    return "\n\n".join(L) + "\n\n"


def gen_unmarshal_harnesses(prefix, kind, info, syntax):
    """C06 / C07 / C10 harnesses for one per-kind message."""
    k, typ, gt, wire = kind
    msg = prefix + k
    nums = dict(info["fields"])
    wt = WT[wire]
    L = []

    def val(name):
        return nondet(kind, '"' + name + '"')

    def keyed(b, num, v):
        return f'{b} = protowire.AppendTag({b}, {num}, {wt})\n\t' + append_value(kind, b, v)

    unknown = 'in = protowire.AppendVarint(protowire.AppendTag(in, 77, protowire.VarintType), 5) // a field the schema does not define'

    # singular fields
    singles = ([("F", nums["f"], False)] if syntax == "proto3" else []) + [("O", nums["o"], True)]
    for fname, num, ptr in singles:
        pre = f'mk_{msg}_{fname}(m, "d_")'
        got = "m." + fname
        if ptr and k != "Bytes":
            got = "*m." + fname
        if wire == "bytes":
            L.append(f'func H_C06_{msg}_{fname}() {{ c06_{msg}_{fname}(false) }}')
            L.append(f'func H_C10_{msg}_{fname}() {{ c06_{msg}_{fname}(true) }}')
            L.append(f'func c06_{msg}_{fname}(aliasCheck bool) {{')
            L.append('\tif aliasCheck {\n\t\tpbC10Prelude()\n\t}')
        else:
            L.append(f'func H_C06_{msg}_{fname}() {{')
        L.append(f'\tm := &{msg}{{}}\n\t{pre} // the destination is pre-populated: the result must not depend on it')
        L.append(f'\tv1 := {val("v1")}\n\tv2 := {val("v2")}')
        L.append('\tin := pbBuf()')
        L.append('\t' + keyed("in", num, "v1"))
        L.append('\t' + unknown)
        L.append('\t' + keyed("in", num, "v2"))
        L.append('\terr := m.Unmarshal(in)')
        L.append('\tverifAssert(err == nil, "Unmarshal accepts a valid encoding (singular field occurring twice, unknown field interleaved)")')
        if ptr:
            L.append(f'\tverifAssert(m.{fname} != nil, "the field is present after decoding")')
            L.append(f'\tif m.{fname} != nil {{\n\t\tverifAssert({eq(kind, got, "v2")}, "a singular field occurring twice takes the last value")\n\t}}')
        else:
            L.append(f'\tverifAssert({eq(kind, got, "v2")}, "a singular field occurring twice takes the last value")')
        L.append('\tverifAssertDecodesLikeRef(m, in, "Unmarshal result equals the message the reference runtime decodes")')
        if wire == "bytes":
            L.append('\tif aliasCheck {\n\t\tverifAssertNoAlias(m, in, "safe-mode decoding does not alias the input buffer")\n\t}')
        L.append('\tverifReach("end")\n}')

    # repeated fields: every legal wire form for both declared packings
    reps = ["R"] + (["U"] if syntax == "proto3" and is_numeric(kind) else []) + (["P"] if syntax == "proto2" and is_numeric(kind) else [])
    for rf in reps:
        num = nums[rf.lower()]
        if wire == "bytes":
            L.append(f'func H_C06_{msg}_{rf}() {{ c06_{msg}_{rf}(false) }}')
            L.append(f'func H_C10_{msg}_{rf}() {{ c06_{msg}_{rf}(true) }}')
            L.append(f'func c06_{msg}_{rf}(aliasCheck bool) {{')
            L.append('\tif aliasCheck {\n\t\tpbC10Prelude()\n\t}')
        else:
            L.append(f'func H_C06_{msg}_{rf}() {{')
        L.append(f'\tm := &{msg}{{}}\n\tmk_{msg}_{rf}(m, "d_", 1)')
        L.append(f'\tv1 := {val("v1")}\n\tv2 := {val("v2")}\n\tv3 := {val("v3")}')
        L.append('\tin := pbBuf()')
        if is_numeric(kind):
            L.append('\tshape := nondetInt("shape")\n\tverifAssume(shape >= 0)\n\tverifAssume(shape <= 3)')
            L.append('\twant := 3')
            L.append('\tswitch verifConcretize(shape) {')
            L.append('\tcase 0: // three unpacked occurrences')
            for v in ("v1", "v2", "v3"):
                L.append('\t\t' + keyed("in", num, v).replace("\n\t", "\n\t\t"))
                if v == "v1":
                    L.append('\t\t' + unknown)
            L.append('\tcase 1: // one packed run')
            L.append('\t\tpl := make([]byte, 0, 64)')
            for v in ("v1", "v2", "v3"):
                L.append('\t\t' + append_value(kind, "pl", v))
            L.append(f'\t\tin = protowire.AppendBytes(protowire.AppendTag(in, {num}, protowire.BytesType), pl)')
            L.append('\tcase 2: // split: packed run, unknown field, unpacked occurrence, empty packed run')
            L.append('\t\tpl := make([]byte, 0, 64)')
            for v in ("v1", "v2"):
                L.append('\t\t' + append_value(kind, "pl", v))
            L.append(f'\t\tin = protowire.AppendBytes(protowire.AppendTag(in, {num}, protowire.BytesType), pl)')
            L.append('\t\t' + unknown)
            L.append('\t\t' + keyed("in", num, "v3").replace("\n\t", "\n\t\t"))
            L.append(f'\t\tin = protowire.AppendBytes(protowire.AppendTag(in, {num}, protowire.BytesType), nil)')
            L.append('\tdefault: // unpacked occurrence followed by a packed run')
            L.append('\t\t' + keyed("in", num, "v1").replace("\n\t", "\n\t\t"))
            L.append('\t\tpl := make([]byte, 0, 64)')
            for v in ("v2", "v3"):
                L.append('\t\t' + append_value(kind, "pl", v))
            L.append(f'\t\tin = protowire.AppendBytes(protowire.AppendTag(in, {num}, protowire.BytesType), pl)')
            L.append('\t}')
        else:
            L.append('\twant := 3')
            for v in ("v1", "v2", "v3"):
                L.append('\t' + keyed("in", num, v))
                if v == "v1":
                    L.append('\t' + unknown)
        L.append('\terr := m.Unmarshal(in)')
        L.append('\tverifAssert(err == nil, "Unmarshal accepts every legal wire form of a repeated field (packed, unpacked, split)")')
        L.append(f'\tverifAssert(len(m.{rf}) == want, "all elements are decoded, in wire order, and nothing of the previous contents remains")')
        L.append(f'\tif len(m.{rf}) == 3 {{')
        L.append(f'\t\tverifAssert3({eq(kind, "m."+rf+"[0]", "v1")}, {eq(kind, "m."+rf+"[1]", "v2")}, {eq(kind, "m."+rf+"[2]", "v3")}, "elements equal the encoded values")')
        L.append('\t}')
        L.append('\tverifAssertDecodesLikeRef(m, in, "Unmarshal result equals the message the reference runtime decodes")')
        if wire == "bytes":
            L.append('\tif aliasCheck {\n\t\tverifAssertNoAlias(m, in, "safe-mode decoding does not alias the input buffer")\n\t}')
        L.append('\tverifReach("end")\n}')

    # C07: unknown fields of all four wire types around a known field survive Unmarshal -> Marshal
    fname, num = (("F", nums["f"]) if syntax == "proto3" else ("O", nums["o"]))
    L.append(f'func H_C07_{msg}() {{')
    L.append(f'\tv := {val("v")}')
    if syntax == "proto3":
        L.append(f'\tverifAssume({nonzero(kind, "v")}) // a proto3 default value is not re-emitted; presence is C05/C06\'s subject')
        if k == "Float":
            L.append('\tverifAssume(math.Float32bits(v) != 0x80000000)')
        if k == "Double":
            L.append('\tverifAssume(math.Float64bits(v) != 0x8000000000000000)')
    if wire == "varint" and k != "Bool":
        L.append('\tverifAssume(v > 0)\n\tverifAssume(v < 64) // value sizes are not this property\'s subject')
    L.append('\tknown := pbBuf()')
    L.append('\t' + keyed("known", num, "v"))
    L.append('\tu1, u2 := pbUnknown(1, %s), pbUnknown(2)' % ", ".join(str(n) for _, n in info["fields"]))
    L.append('\tin := make([]byte, 0, 256)')
    L.append('\tin = append(in, u1...)\n\tin = append(in, known...)\n\tin = append(in, u2...)')
    L.append(f'\tm := &{msg}{{}}')
    L.append('\tverifAssert(m.Unmarshal(in) == nil, "Unmarshal accepts unknown fields")')
    L.append('\twant := make([]byte, 0, 256)')
    L.append('\twant = append(want, known...)\n\twant = append(want, u1...)\n\twant = append(want, u2...)')
    L.append('\tpbC07(m, want)')
    L.append('}')
    # C07, repeated fields: unknown fields immediately before and after a packed run (and an unpacked occurrence)
    if is_numeric(kind):
        for rf in reps:
            rnum = nums[rf.lower()]
            L.append(f'func H_C07_{msg}_{rf}() {{')
            for v in ("v1", "v2", "v3"):
                L.append(f'\t{v} := {val(v)}')
                if wire == "varint" and k != "Bool":
                    L.append(f'\tverifAssume({v} >= 0)\n\tverifAssume({v} < 64) // value sizes are not this property\'s subject')
            L.append('\tu1, u2 := pbUnknown(3), pbUnknown(2)')
            L.append('\tpl := make([]byte, 0, 64)')
            for v in ("v1", "v2"):
                L.append('\t' + append_value(kind, "pl", v))
            L.append('\tin := make([]byte, 0, 256)')
            L.append('\tin = append(in, u1...)')
            L.append(f'\tin = protowire.AppendBytes(protowire.AppendTag(in, {rnum}, protowire.BytesType), pl)')
            L.append('\tin = append(in, u2...)')
            L.append('\t' + keyed("in", rnum, "v3"))
            L.append(f'\tm := &{msg}{{}}')
            L.append('\tverifAssert(m.Unmarshal(in) == nil, "Unmarshal accepts unknown fields around a packed run")')
            L.append(f'\tref := &{msg}{{}}')
            L.append(f'\tref.{rf} = append(ref.{rf}, v1, v2, v3)')
            L.append(f'\twant := exp_{msg}(make([]byte, 0, 256), ref)')
            L.append('\twant = append(want, u1...)\n\twant = append(want, u2...)')
            L.append('\tpbC07(m, want)')
            L.append('}')
    return "\n".join(L) + "\n\n"


def gen_ext_harnesses():
    """C04/C05/C06 for generated proto2 extension snippets (package p2)."""
    L = ['''// proto2 extensions in generated code. In the solver run the descriptors are spelled out here (the generated
// package initialiser is not executed) and the runtime's extension store is the engine's contract model; natively
// the real descriptors and the real runtime are used.
''']
    for i, kind in enumerate(EXT_KINDS):
        k, typ, gt, wire = kind
        num = EXT_NUMS[i % len(EXT_NUMS)]
        msg, ev = "X" + k, f"E_X{k}Scope_X"
        ety = "([]byte)(nil)" if k == "Bytes" else f"(*{gt})(nil)"
        wt = WT[wire]
        v = nondet(kind, '"v"')
        L.append(f"""func xsetup_{msg}() {{
	if !verifNative() {{
		{ev} = &protoimpl.ExtensionInfo{{ExtendedType: (*{msg})(nil), ExtensionType: {ety}, Field: {num}}}
	}}
}}

// message with symbolic regular field and symbolic extension presence/value, and its canonical encoding
func xmk_{msg}() (*{msg}, []byte, []byte) {{
	xsetup_{msg}()
	m := &{msg}{{}}
	known, ext := pbBuf(), pbBuf()
	if nondetBool("has_a") {{
		a := nondetI32("a")
		verifAssume(a >= 0)
		verifAssume(a < 300) // varint sizes of regular fields are the per-kind harnesses' subject
		m.A = &a
		known = protowire.AppendVarint(protowire.AppendTag(known, 1, protowire.VarintType), uint64(int64(a)))
	}}
	if nondetBool("has_x") {{
		v := {v}
		proto.SetExtension(m, {ev}, v)
		ext = protowire.AppendTag(ext, {num}, {wt})
		{append_value(kind, "ext", "v")}
	}}
	return m, known, ext
}}

func H_C04_{msg}() {{
	m, _, _ := xmk_{msg}()
	pbC04(m)
}}

func H_C05_{msg}() {{
	m, known, ext := xmk_{msg}()
	pbC05X(m, known, ext)
}}

func H_C06_{msg}() {{
	xsetup_{msg}()
	v := {v}
	in := pbBuf()
	shape := nondetInt("shape")
	verifAssume(shape >= 0)
	verifAssume(shape <= 2)
	want := true
	switch verifConcretize(shape) {{
	case 0: // regular field, extension, unknown field
		in = protowire.AppendVarint(protowire.AppendTag(in, 1, protowire.VarintType), 7)
		in = protowire.AppendTag(in, {num}, {wt})
		{append_value(kind, "in", "v")}
		in = protowire.AppendVarint(protowire.AppendTag(in, 77, protowire.VarintType), 5)
	case 1: // the extension occurs twice: the last value wins
		in = protowire.AppendTag(in, {num}, {wt})
		{append_value(kind, "in", nondet(kind, '"v0"'))}
		in = protowire.AppendTag(in, {num}, {wt})
		{append_value(kind, "in", "v")}
	default: // the extension does not occur
		in = protowire.AppendVarint(protowire.AppendTag(in, 1, protowire.VarintType), 7)
		want = false
	}}
	m := &{msg}{{}}
	proto.SetExtension(m, {ev}, {nondet(kind, '"d"')}) // the destination is pre-populated: the result must not depend on it
	err := m.Unmarshal(in)
	verifAssert(err == nil, "Unmarshal accepts a message carrying an extension field")
	verifAssert(proto.HasExtension(m, {ev}) == want, "the extension is set iff it occurs on the wire")
	if want && proto.HasExtension(m, {ev}) {{
		got, ok := proto.GetExtension(m, {ev}).({gt})
		verifAssert2(ok, {eq(kind, "got", "v")}, "the extension holds the (last) encoded value")
	}}
	verifAssertDecodesLikeRef(m, in, "Unmarshal result equals the message the reference runtime decodes")
	verifReach("end")
}}
""")
    L.append("""func xsetup_XAll() {
	if !verifNative() {
		E_XAllScope_I = &protoimpl.ExtensionInfo{ExtendedType: (*XAll)(nil), ExtensionType: (*int32)(nil), Field: 100}
		E_XAllScope_S = &protoimpl.ExtensionInfo{ExtendedType: (*XAll)(nil), ExtensionType: (*string)(nil), Field: 101}
		E_XAllScope_M = &protoimpl.ExtensionInfo{ExtendedType: (*XAll)(nil), ExtensionType: (*Leaf)(nil), Field: 150}
	}
}

// the runtime emits extensions (ascending field number) before the regular fields, the generated code after them;
// both are encodings of the same message
func pbC05X(m pbMsg, known, ext []byte) {
	out, err := m.Marshal()
	verifAssert(err == nil, "Marshal succeeds")
	ref := append(append(make([]byte, 0, 512), ext...), known...)
	if verifNative() {
		verifAssertCanonical(m, out, ref, "Marshal output decodes (reference runtime) to an equal message with identical presence")
	} else {
		alt := append(append(make([]byte, 0, 512), known...), ext...)
		verifAssert(verifOr(verifBytesEq(out, ref), verifBytesEq(out, alt)), "Marshal output is the encoding of exactly the populated fields and extensions: nothing dropped, nothing unset emitted")
	}
	verifReach("end")
}

func xmk_XAll() (*XAll, []byte, []byte) {
	xsetup_XAll()
	m := &XAll{}
	known, ext := pbBuf(), pbBuf()
	if nondetBool("has_a") {
		a := int32(7)
		m.A = &a
		known = protowire.AppendVarint(protowire.AppendTag(known, 1, protowire.VarintType), 7)
	}
	if nondetBool("has_i") {
		v := nondetI32("i")
		verifAssume(v >= -1)
		verifAssume(v < 300)
		proto.SetExtension(m, E_XAllScope_I, v)
		ext = protowire.AppendVarint(protowire.AppendTag(ext, 100, protowire.VarintType), uint64(int64(v)))
	}
	if nondetBool("has_s") {
		v := string(pbBytes("s"))
		proto.SetExtension(m, E_XAllScope_S, v)
		ext = protowire.AppendString(protowire.AppendTag(ext, 101, protowire.BytesType), v)
	}
	if nondetBool("has_m") {
		l := &Leaf{}
		sub := make([]byte, 0, 32)
		if nondetBool("has_m_a") {
			a := nondetI32("m_a")
			verifAssume(a >= 0)
			verifAssume(a < 300)
			l.A = &a
			sub = protowire.AppendVarint(protowire.AppendTag(sub, 1, protowire.VarintType), uint64(int64(a)))
		}
		proto.SetExtension(m, E_XAllScope_M, l)
		ext = protowire.AppendBytes(protowire.AppendTag(ext, 150, protowire.BytesType), sub)
	}
	return m, known, ext
}

func H_C04_XAll() {
	m, _, _ := xmk_XAll()
	pbC04(m)
}

func H_C05_XAll() {
	m, known, ext := xmk_XAll()
	pbC05X(m, known, ext)
}

// C10: string / bytes extension values decoded in safe mode do not alias the input
func H_C10_XString() {
	pbC10Prelude()
	xsetup_XString()
	v := string(pbBytes("v"))
	in := protowire.AppendString(protowire.AppendTag(pbBuf(), 100, protowire.BytesType), v)
	m := &XString{}
	verifAssert(m.Unmarshal(in) == nil, "Unmarshal accepts a string extension")
	verifAssertNoAlias(m, in, "safe-mode decoding does not alias the input buffer")
	verifReach("end")
}

func H_C10_XBytes() {
	pbC10Prelude()
	xsetup_XBytes()
	v := pbBytes("v")
	in := protowire.AppendBytes(protowire.AppendTag(pbBuf(), 2047, protowire.BytesType), v)
	m := &XBytes{}
	verifAssert(m.Unmarshal(in) == nil, "Unmarshal accepts a bytes extension")
	verifAssertNoAlias(m, in, "safe-mode decoding does not alias the input buffer")
	verifReach("end")
}

// C09: whatever an earlier Size() cached, Marshal returns the bytes of the current extensions
func H_C09_XAll() {
	m, _, _ := xmk_XAll()
	_ = m.Size()
	known := pbBuf()
	if m.A != nil {
		known = protowire.AppendVarint(protowire.AppendTag(known, 1, protowire.VarintType), 7)
	}
	// mutate: set / overwrite the string extension, clear the int32 one
	v := string(pbBytes("s2"))
	proto.SetExtension(m, E_XAllScope_S, v)
	proto.ClearExtension(m, E_XAllScope_I)
	ext := protowire.AppendString(protowire.AppendTag(pbBuf(), 101, protowire.BytesType), v)
	if proto.HasExtension(m, E_XAllScope_M) {
		l := proto.GetExtension(m, E_XAllScope_M).(*Leaf)
		sub := make([]byte, 0, 32)
		if l.A != nil {
			sub = protowire.AppendVarint(protowire.AppendTag(sub, 1, protowire.VarintType), uint64(int64(*l.A)))
		}
		ext = protowire.AppendBytes(protowire.AppendTag(ext, 150, protowire.BytesType), sub)
	}
	pbC05X(m, known, ext)
}

// C07: unknown fields around extension fields survive Unmarshal -> Marshal
func H_C07_XAll() {
	xsetup_XAll()
	i, s := nondetI32("i"), string(pbBytes("s"))
	verifAssume(i >= 0)
	verifAssume(i < 64)
	// unknown field numbers next to the extension numbers (the per-kind harnesses range over all numbers)
	n1 := nondetInt("n1")
	verifAssume(n1 == 99 || n1 == 102 || n1 == 151)
	n2 := nondetInt("n2")
	verifAssume(n2 == 2 || n2 == 149 || n2 == 199)
	u1, u2 := pbUnknownNum(3, verifConcretize(n1)), pbUnknownNum(2, verifConcretize(n2))
	known := protowire.AppendVarint(protowire.AppendTag(pbBuf(), 1, protowire.VarintType), 7)
	ext := protowire.AppendVarint(protowire.AppendTag(pbBuf(), 100, protowire.VarintType), uint64(int64(i)))
	ext = protowire.AppendString(protowire.AppendTag(ext, 101, protowire.BytesType), s)
	in := make([]byte, 0, 256)
	in = append(in, u1...)
	in = append(in, ext...)
	in = append(in, u2...)
	in = append(in, known...)
	m := &XAll{}
	verifAssert(m.Unmarshal(in) == nil, "Unmarshal accepts unknown fields around extension fields")
	out, err := m.Marshal()
	verifAssert(err == nil, "Marshal succeeds")
	verifAssert(m.Size() == len(in), "Size accounts for the unknown fields")
	ref := append(append(append(append(make([]byte, 0, 512), ext...), known...), u1...), u2...)
	if verifNative() {
		verifAssertCanonical(m, out, ref, "unknown fields are re-emitted byte for byte by the next Marshal")
	} else {
		alt := append(append(append(append(make([]byte, 0, 512), known...), ext...), u1...), u2...)
		verifAssert(verifOr(verifBytesEq(out, ref), verifBytesEq(out, alt)), "unknown fields are re-emitted byte for byte by the next Marshal")
	}
	verifReach("end")
}

func H_C06_XAll() {
	xsetup_XAll()
	i, s, a := nondetI32("i"), string(pbBytes("s")), nondetI32("m_a")
	sub := protowire.AppendVarint(protowire.AppendTag(make([]byte, 0, 16), 1, protowire.VarintType), uint64(int64(a)))
	in := pbBuf()
	in = protowire.AppendBytes(protowire.AppendTag(in, 150, protowire.BytesType), sub)
	in = protowire.AppendString(protowire.AppendTag(in, 101, protowire.BytesType), s)
	in = protowire.AppendVarint(protowire.AppendTag(in, 77, protowire.VarintType), 5)
	in = protowire.AppendVarint(protowire.AppendTag(in, 100, protowire.VarintType), uint64(int64(i)))
	m := &XAll{}
	err := m.Unmarshal(in)
	verifAssert(err == nil, "Unmarshal accepts extension fields in any order")
	verifAssert3(proto.HasExtension(m, E_XAllScope_I), proto.HasExtension(m, E_XAllScope_S), proto.HasExtension(m, E_XAllScope_M), "all three extensions are set")
	if proto.HasExtension(m, E_XAllScope_I) && proto.HasExtension(m, E_XAllScope_S) && proto.HasExtension(m, E_XAllScope_M) {
		gi, ok1 := proto.GetExtension(m, E_XAllScope_I).(int32)
		gs, ok2 := proto.GetExtension(m, E_XAllScope_S).(string)
		gm, ok3 := proto.GetExtension(m, E_XAllScope_M).(*Leaf)
		verifAssert3(ok1, ok2, ok3, "with their Go types")
		if ok1 && ok2 && ok3 && gm != nil {
			verifAssert3(gi == i, verifBytesEq([]byte(gs), []byte(s)), gm.A != nil && *gm.A == a, "and the encoded values")
		}
	}
	verifAssertDecodesLikeRef(m, in, "Unmarshal result equals the message the reference runtime decodes")
	verifReach("end")
}
""")
    hdr = HEADER % "p2"
    hdr = hdr.replace('import (\n\t"math"\n', 'import (\n\t"math"\n\n\t"google.golang.org/protobuf/proto"\n\t"google.golang.org/protobuf/runtime/protoimpl"')
    return hdr + "\n".join(L)


def main():
    os.makedirs(os.path.join(ROOT, "schemas"), exist_ok=True)
    s3, m3 = p3_schema()
    s2, m2 = p2_schema()
    open(os.path.join(ROOT, "schemas", "p3.textpb"), "w").write(s3)
    open(os.path.join(ROOT, "schemas", "p2.textpb"), "w").write(s2)
    for pkg, prefix, msgs, syntax in (("p3", "S", m3, "proto3"), ("p2", "T", m2, "proto2")):
        d = os.path.join(VERIF, "harness", pkg)
        os.makedirs(d, exist_ok=True)
        helpers = HEADER % pkg
        harn = HEADER % pkg
        unm = HEADER % pkg
        for kind in KINDS:
            helpers += gen_kind_helpers(pkg, prefix, kind, msgs[kind[0]], syntax)
            harn += gen_kind_harnesses(prefix, kind, msgs[kind[0]], syntax)
            unm += gen_unmarshal_harnesses(prefix, kind, msgs[kind[0]], syntax)
        sup = open(os.path.join(VERIF, "harness", "pbsupport.go.tmpl")).read().replace("package PKG", "package " + pkg)
        open(os.path.join(d, "gen_support.go"), "w").write(sup)
        open(os.path.join(d, "gen_helpers.go"), "w").write(helpers)
        open(os.path.join(d, "gen_harness.go"), "w").write(harn)
        open(os.path.join(d, "gen_unmarshal.go"), "w").write(unm)
        if pkg == "p2":
            open(os.path.join(d, "gen_ext.go"), "w").write(gen_ext_harnesses())
    print("schemas and harness code written")


if __name__ == "__main__":
    main()
