#!/usr/bin/env python3
# validates MANIFEST.json and every evidence file against the schemas
import json, sys, glob, jsonschema
ok = True
try:
    jsonschema.validate(json.load(open('/verif/MANIFEST.json')), json.load(open('/root/.vp/MANIFEST.schema.json')))
except Exception as e:
    ok = False; print('MANIFEST:', str(e)[:500])
sch = json.load(open('/root/.vp/EVIDENCE.schema.json'))
for f in sorted(glob.glob('/verif/evidence/*.json')):
    try:
        jsonschema.validate(json.load(open(f)), sch)
    except Exception as e:
        ok = False; print(f, str(e)[:500])
print('valid' if ok else 'INVALID')
sys.exit(0 if ok else 1)
