#!/bin/bash
# usage: seedcheck.sh <seed-id> <PROP> [more PROPs]
# applies /verif/seeded/<id>/patch.diff to /repo, runs the quick checks, restores /repo and the evidence files
id=$1; shift
cd /verif
git -C /repo diff --quiet || { echo "/repo is dirty"; exit 2; }
git -C /repo apply /verif/seeded/$id/patch.diff || { echo "patch does not apply"; exit 2; }
for p in "$@"; do
  ./bin/vsym check $p --tier quick > /tmp/seed_${id}_$p.log 2>&1
  echo "seed=$id check=$p exit=$? $(grep -c '^VIOLATION' /tmp/seed_${id}_$p.log) violation line(s)"
done
git -C /repo checkout -- .
git -C /verif checkout -- evidence 2>/dev/null
