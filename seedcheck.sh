#!/bin/bash
# usage: seedcheck.sh <seed-id> <PROP> [more PROPs]
# Evaluates a seeded change WITHOUT touching /repo or /verif's evidence: the patch is applied to a scratch git
# worktree of /repo, the checks run against it (VERIF_REPO) from a scratch copy of /verif (VERIF_DIR).
id=$1; shift
R=/tmp/seedrepo_$id; V=/tmp/seedverif_$id
git -C /repo worktree remove --force $R 2>/dev/null; rm -rf $R $V
git -C /repo worktree add -q --detach $R HEAD || exit 2
git -C $R apply /verif/seeded/$id/patch.diff || { echo "patch does not apply"; git -C /repo worktree remove --force $R; exit 2; }
mkdir -p $V; rsync -a --exclude .git --exclude .work --exclude bin --exclude replays --exclude seeded /verif/ $V/
for p in "$@"; do
  VERIF_REPO=$R VERIF_DIR=$V /verif/bin/vsym check $p --tier quick ${JOBS:+--jobs $JOBS} > /tmp/seed_${id}_$p.log 2>&1
  echo "seed=$id check=$p exit=$? $(grep -c '^VIOLATION' /tmp/seed_${id}_$p.log) violation line(s)"
done
git -C /repo worktree remove --force $R; rm -rf $V
