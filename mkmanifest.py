#!/usr/bin/env python3
# Regenerates /verif/MANIFEST.json from the table below (kept in one place so the manifest stays valid).
import json

TECH = "symbolic execution of the real Go SSA + SMT (z3 5.1), bounded; solver models replayed natively"
NOTE = ("Trusted: the SSA->SMT translation (validated on every run by replaying sampled path witnesses natively and comparing "
        "observed values), z3, go/ssa, and the listed stubs. Anything beyond the stated bounds is outside the claim.")

checks = {
 "C01": ("model_checking",
   "Bounded symbolic execution of the real SSA of Encoder.Encode*/EncodePacked*, Decoder.DecodeTag/Decode*/DecodePacked* and the size helpers: "
   "field number over all of [1,2^29-1], value over the whole Go type (floats as bit patterns), decoder mode symbolic, output buffer sized only from the "
   "size helpers with symbolic initial contents (slack or overrun cannot hide). Every implicit Go panic and every round-trip assertion is an SMT obligation "
   "discharged for all inputs on the path. Strings/bytes: symbolic length <= 2^20 (quick) / 2^28+64 (thorough), symbolic contents, no unrolling. "
   "Packed lists: <=40/140 elements (fixed-width kinds, bool), <=1-2 / 2-3 elements (varint kinds, every size class), plus lists of 12-13 ten-byte / 25-26 five-byte "
   "varints whose payload straddles the 1->2 byte length prefix.", "§5 C01"),
 "C02": ("model_checking",
   "csproto's encoder output is compared byte for byte with google.golang.org/protobuf/encoding/protowire executed symbolically from its own SSA "
   "(plus the spec zig-zag formula), for every kind, every field number and every value; reference-written fields and packed runs (including 10-byte "
   "negatives) decode through csproto to the reference's value; Skip is checked as an inductive step (field preceded and followed by arbitrary bytes) "
   "plus a whole-message cross-check.", "§5 C02"),
 "C03": ("model_checking",
   "Inductive one-step check from an arbitrary decoder state: symbolic buffer (length <= 24/40; 8/11 for packed varint readers; 14/24 for Skip), symbolic "
   "cursor in [0,len], symbolic mode; one call of each of the 30 API functions. Obligations: no implicit panic, cursor invariant re-established, input not "
   "written, advance equals the protowire reference's item length on success, over-long declared lengths rejected, make() capacity <= 8*len+64.", "§5 C03"),
 "C19": ("model_checking",
   "EncodeNested/DecodeNested with harness message types for the MarshalerTo, Marshaler and v1 (XXX_) tiers, symbolic payload (<=12/200 bytes plus the lengths 126-130 and 16382-16386 around the length-prefix boundaries) and "
   "symbolic failure: bytes == key||len||csproto.Marshal(m), cursor exact (sentinel after the field), nested error returned (errors.Is), decode "
   "consumes exactly the declared length, over-long length rejected before the nested decoder runs.", "§5 C19"),
 "C13": ("model_checking",
   "lazyproto Decode / NewDecoder+Decode (safe and fast mode, both entry points symbolic) on messages written by the protowire reference with symbolic "
   "values: every typed accessor (26) is compared with the reference parse - last occurrence, all occurrences in wire order with packed runs expanded, "
   "nested paths to depth 2 incl. empty sub-messages, raw bytes through negative tags, ErrTagNotFound/ErrTagNotDefined/ErrNestingNotDefined via errors.Is, "
   "wire-type mismatch and 32-bit overflow as errors; plus: arbitrary byte strings of length <= 4/6 through both entry points and all accessors never panic.", "§5 C13"),
 "C14": ("model_checking",
   "Bounded histories on one pooled lazy Decoder: NewDecoder with symbolic options (mode, WithMaxBufferSize in {absent,0,1,3}, filter in {absent,cap/2,0,-1}), "
   "then 2-3 cycles Decode -> all accessors / NestedResults / Range -> Close on inputs of different shapes (more, fewer, zero, more occurrences) with symbolic "
   "values; sync.Pool modelled as recycle / always-fresh / fork-at-every-Get. Obligations: every accessor equals the reference content of that cycle's input "
   "alone, no panic anywhere incl. Close, and in safe mode everything handed out earlier is unchanged after Close and later decodes.", "§5 C14"),
 "C15": ("other",
   "Thread-modular ownership obligation on every feasible single-thread path (no schedule enumerated): after NewDecoder everything reachable from the Decoder "
   "and all package variables are shared and must not be written non-atomically; pooled results are owned between Get and Put. Two simultaneously live results "
   "(the single-thread projection of two goroutines) each expose only their own input under an adversarial pool. Violations are replayed as an 8-goroutine "
   "workload under the Go race detector.", "§5 C15"),
 "C04": ("model_checking",
   "The generated Size/Marshal/MarshalTo are produced at check time by the plug-in built from /repo (no protoc: hand-built CodeGeneratorRequest) for a schema corpus "
   "(proto3 and proto2: 16 scalar kinds x singular/optional/repeated packed/unpacked at field numbers of every key size, nested/repeated/recursive messages, oneof, "
   "6 map kinds, a multi-field message) and executed symbolically with everything they call in csproto. Obligation per message value: buffer of exactly Size() bytes "
   "with symbolic initial contents, MarshalTo succeeds without any implicit panic, len(Marshal())==Size(), identical bytes. Lists <=2-3 (varint) / <=3-6 and 15-17/31-33/127-129 (fixed, bool) elements; long values (<=300 bytes) for the length-prefix boundary. "
   "proto2 extensions of 14 kinds and a message with three extensions (int32, string, message) run against an explicit contract model of protobuf-go's extension store "
   "(validated on every native replay). Generator option variants filepermessage / enableunsafedecode run the all-fields and composite harnesses.", "§4, §5 C04"),
 "C05": ("model_checking",
   "Marshal output of every corpus message value equals the canonical encoding written by the protowire reference from the spec rules (presence per syntax, packed/unpacked, "
   "oneof, map entries, nested); on every replayed witness the oracle itself is validated against proto.Marshal(Deterministic) of the real protobuf-go runtime and a "
   "counterexample is only reported if the real runtime decodes the bytes to a different message/presence. Google v2 structs, apiversion=v2. "
   "Extendable messages: nothing unset is emitted, every set extension is emitted once (either order relative to regular fields).", "§4, §5 C05"),
 "C06": ("model_checking",
   "Generated Unmarshal on valid encodings enumerated by shape with symbolic values: singular field twice with an unknown field interleaved, repeated fields in every "
   "legal wire form for both declared packings (unpacked, one packed run, split runs, empty run), nested/recursive messages, oneof member sequences, map entries in "
   "6 shapes, extension fields (once, twice, absent; any order), pre-populated destination. Expected state is spec-derived; on replay proto.Unmarshal/proto.Equal of the real runtime decides.", "§5 C06"),
 "C07": ("model_checking",
   "Unknown fields (first one: any undefined number in [1,2^29-1]; any of the 4 wire types, symbolic payload) before and after a singular known field, and around a packed run "
   "plus an unpacked occurrence of every numeric repeated field (both declared packings) and around extension fields: after Unmarshal, Size counts them and Marshal re-emits "
   "them byte for byte (known fields first, unknown in arrival order), per message kind; validated against the real runtime on replay.", "§5 C07"),
 "C08": ("model_checking",
   "Generated Unmarshal of 34 message types (proto3, proto2 incl. required fields, extendable) on fully unconstrained input bytes of length <=4-6 (quick) / <=6-8 (thorough), and "
   "on 25 of them a field key followed by an arbitrary single varint of 1-10 bytes (overflowing / unterminated included) as declared length and a short tail: no implicit panic, "
   "make() capacity <= 8*len+64. Differential clause: the witness of every accepting path is decoded by the real reference runtime too and the messages must be equal "
   "(the open finding 'singular message field merged' is recognised by cause and reported as KNOWN-FINDING).", "§5 C08"),
 "C09": ("model_checking",
   "Two-step history that generalises: contents A, Size() (cache now holds Size(A), as any history or the runtime's proto.Size can leave it), assignment of independent "
   "symbolic contents B through the fields (also inside an already-sized nested message), then Marshal == canonical(B) and MarshalTo into a reused scratch buffer (symbolic previous contents) writes the same bytes; also set/overwrite/clear of extensions. "
   "Per message kind and for composites. Concurrent clause (H_C09_Own_*): on a shared message Size/Marshal/MarshalTo perform no plain write and no location is stored atomically and loaded plainly "
   "(thread-modular obligation); natively 8 goroutines marshal a never-marshaled message under the race detector.", "§5 C09"),
 "C10": ("model_checking",
   "Heap-identity obligation after generated Unmarshal without enableunsafedecode: no non-empty string/[]byte reachable from the message (fields, repeated, oneof, map values, "
   "nested, unknown-field storage, extension values) shares the input's backing object, also when the process has used a lazy decode and a fast-mode decoder before and after map "
   "entries of every shape; hand-written DecodeString/DecodeBytes on arbitrary buffers <=160/300 bytes; the native replay overwrites the buffer and compares serialisations. Lazy-decoder safe mode is covered by C14's stability obligations.", "§5 C10"),
 "C17": ("model_checking",
   "proto2 messages with 1-3 required fields, flat and nested (child + repeated kids), all presence vectors symbolic: Marshal/MarshalTo return an error iff a required "
   "field of the message or of a nested message reached is unset (all-unset included); Unmarshal of the canonical bytes of every presence vector returns an error iff "
   "one is missing (empty input and empty nested messages included); complete messages never fail.", "§5 C17"),
 "C11": ("other",
   "Symbolic execution of csproto's dispatch code over candidate values whose real method sets realise every tier combination (csproto methods over a real v2 message, "
   "v1 XXX_ methods over a real v2 message, plain v2, gogo-registered, legacy v1, TextMarshaler, non-message pointer, non-pointer, typed nil, nil interface): tier order via "
   "counters, owning runtime via logged contract stubs, classification correct and identical on first use and on cache hits, every failed type assertion / nil dereference "
   "an obligation; all paths replayed natively against the real runtimes.", "§5 C11"),
 "C12": ("other",
   "Symbolic execution of extensions.go over message x descriptor candidates with the runtimes' extension APIs as logged stubs: matching pairs reach exactly the owning "
   "runtime, mismatching pairs yield false/error/documented panic with no runtime call; every path is replayed natively where the coherence laws are asserted on real "
   "v2 and gogo messages with real extensions, and csproto's answers are compared with the owning runtime's (declared defaults, foreign extendees, Range: visited set and early stop over all subsets of four extensions).", "§5 C12"),
 "C18": ("other",
   "Symbolic execution of json.go with the five options symbolic (optionally each preceded by its opposite value: the later occurrence counts): the codec invoked receives exactly the options given (receiver structs of the stubbed protojson/jsonpb "
   "calls are read back), nil handling, json.Marshaler/Unmarshaler precedence, error propagation; every path replayed natively where the real codecs must produce valid "
   "JSON that round-trips and shows each option's effect.", "§5 C18"),
 "C20": ("model_checking",
   "ParseAnnotatedHex on every ASCII text of length <= 4 (quick) / 5 (thorough): result bytes and accept/reject verdict equal a direct state-machine oracle "
   "(strings.Split/Index/Map modelled by case splits on separator positions, the Map callback evaluated symbolically, encoding/hex from its SSA). protodump's dumpProto "
   "on reference-written messages (2 fields, nesting, expand/strings path sets incl. non-matching decoys) prints exactly one entry per field in wire order with the "
   "reference's number, wire type and value (observed as the fmt.Sprintf call sequence; natively the text is compared), recurses exactly on requested paths; arbitrary "
   "bytes <= 5/7 never crash it.", "§5 C20"),
}

na = [
 ("C16", "generator totality/determinism/compilability quantifies over programs and runs through text/template reflection and the Go compiler; no SMT encoding within reach (DESIGN.md §6)"),
]

pending = []

m = {
 "version": 1,
 "setup_cmd": "cd /verif/engine && GOFLAGS=-mod=mod GOPROXY=off GOSUMDB=off GOTOOLCHAIN=local go build -o /verif/bin/vsym .",
 "hooks": {
  "guard": "verif",
  "enable": "no source hooks: harness files carry //go:build verif and are injected into the package under test through go/packages Config.Overlay (symbolic run) and go test -overlay (native replay); nothing is written under /repo",
  "baseline_off_cmd": "cd /repo && GOFLAGS=-mod=mod go test -json -vet=off -count=1 -timeout 25m ./...",
  "source_commits": [],
  "add_only": True,
 },
 "engines": [{"name": "vsym", "path": "/verif/engine", "serves_properties": sorted(checks),
   "kind_free_text": "symbolic executor for Go SSA (golang.org/x/tools/go/ssa v0.29.0) emitting SMT-LIB2 bit-vector/array queries to z3 5.1.0; counterexamples and path witnesses replayed natively with go test -overlay"}],
 "checks": [],
 "not_applicable": [{"property_id": p, "reason": r} for p, r in na],
 "notes": "Exit codes of every check: 0 held within bounds; 1 + VIOLATION line = natively reproduced, unlisted violation; 2 inconclusive (timeout/unknown/unwinding/unsupported), 3 engine self-check failure. See DESIGN.md.",
}
for pid in sorted(checks):
    cat, text, ref = checks[pid]
    m["checks"].append({
      "property_id": pid,
      "quick_cmd": f"bin/vsym check {pid} --tier quick",
      "thorough_cmd": f"bin/vsym check {pid} --tier thorough",
      "evidence_file": f"evidence/{pid}.json",
      "replay_cmd_template": "bin/vsym replay {path}",
      "engine": "vsym",
      "level_claimed": {"category": cat, "text": text, "design_ref": "DESIGN.md " + ref},
      "level_note": NOTE,
      "technique": TECH,
    })
for p in pending:
    if p not in checks:
        m["not_applicable"].append({"property_id": p, "reason": "check not built yet in this session (planned, see DESIGN.md §5); not claimed until it runs clean"})
json.dump(m, open('/verif/MANIFEST.json', 'w'), indent=1)
print("wrote MANIFEST.json with", len(m["checks"]), "checks")
