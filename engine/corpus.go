package main

import (
	"fmt"
	"os"
	"os/exec"
	"path/filepath"
)

// buildCorpus produces the generated code under test at check time, without protoc:
//   protoc-gen-go (from the module cache) and protoc-gen-fastmarshal (from /repo's working tree) are built,
//   fed a CodeGeneratorRequest assembled from /verif/corpus/schemas/*.textpb by corpusgen, and their output is
//   placed in a scratch module (replace csproto => /repo). Sets g.Dir / g.PkgDir.
func buildCorpus(g *Group, work string) error {
	mod := filepath.Join(work, "corpus")
	g.Dir = mod
	g.PkgDir = filepath.Join(mod, g.Name)
	schemaName := g.Schema
	if schemaName == "" {
		schemaName = g.Name
	}
	if _, err := os.Stat(filepath.Join(g.PkgDir, schemaName+".pb.go")); err == nil {
		return nil
	}
	bin := filepath.Join(work, "bin")
	os.MkdirAll(bin, 0o755)
	run := func(dir string, name string, args ...string) error {
		cmd := exec.Command(name, args...)
		cmd.Dir = dir
		cmd.Env = goEnv()
		out, err := cmd.CombinedOutput()
		if err != nil {
			return fmt.Errorf("%s %v: %v: %s", name, args, err, string(out))
		}
		return nil
	}
	if _, err := os.Stat(filepath.Join(bin, "corpusgen")); err != nil {
		if err := run(repoDir, "go", "build", "-o", filepath.Join(bin, "protoc-gen-go"), "google.golang.org/protobuf/cmd/protoc-gen-go"); err != nil {
			return err
		}
		if err := run(repoDir, "go", "build", "-o", filepath.Join(bin, "protoc-gen-fastmarshal"), "./cmd/protoc-gen-fastmarshal"); err != nil {
			return err
		}
		if err := run(filepath.Join(verifDir, "corpus", "gen"), "go", "build", "-o", filepath.Join(bin, "corpusgen"), "."); err != nil {
			return err
		}
	}
	os.MkdirAll(g.PkgDir, 0o755)
	gomod := "module verifcorpus\n\ngo 1.21\n\nrequire (\n\tgithub.com/CrowdStrike/csproto v0.0.0\n\tgoogle.golang.org/protobuf v1.36.4\n)\n\nreplace github.com/CrowdStrike/csproto => " + repoDir + "\n"
	if err := os.WriteFile(filepath.Join(mod, "go.mod"), []byte(gomod), 0o644); err != nil {
		return err
	}
	sum, err := os.ReadFile(filepath.Join(repoDir, "go.sum"))
	if err != nil {
		return err
	}
	os.WriteFile(filepath.Join(mod, "go.sum"), sum, 0o644)
	schema := filepath.Join(verifDir, "corpus", "schemas", schemaName+".textpb")
	if err := run(work, filepath.Join(bin, "corpusgen"), "-schemas", schema, "-generate", schemaName+".proto", "-plugin", filepath.Join(bin, "protoc-gen-go"), "-param", "paths=source_relative", "-out", g.PkgDir); err != nil {
		return err
	}
	if err := run(work, filepath.Join(bin, "corpusgen"), "-schemas", schema, "-generate", schemaName+".proto", "-plugin", filepath.Join(bin, "protoc-gen-fastmarshal"), "-param", g.FmParams, "-out", g.PkgDir); err != nil {
		return err
	}
	// the generated code must compile; a schema whose output does not compile makes the run inconclusive
	if err := run(mod, "go", "build", "./"+g.Name); err != nil {
		return fmt.Errorf("generated code does not compile: %v", err)
	}
	return nil
}
