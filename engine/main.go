package main

// vsym — symbolic executor for Go SSA + SMT, and the check driver built on it.
//
//   vsym check <PROP> [--tier quick|thorough] [--jobs N] [--only regexp] [--keep]
//   vsym worker <spec.json>            (internal: runs harnesses named on stdin, one JSON result per line)
//   vsym replay <replay.json>          (native replay of one counterexample against /repo)
//   vsym list <PROP>                   (harnesses that would run)

import (
	"fmt"
	"os"
)

func usage() {
	fmt.Fprintln(os.Stderr, "usage: vsym check <PROP> [--tier quick|thorough] [--jobs N] [--only re] | vsym worker <spec> | vsym replay <file> | vsym list <PROP>")
	os.Exit(2)
}

func main() {
	if len(os.Args) < 2 {
		usage()
	}
	switch os.Args[1] {
	case "check":
		os.Exit(cmdCheck(os.Args[2:]))
	case "worker":
		if len(os.Args) < 3 {
			usage()
		}
		os.Exit(cmdWorker(os.Args[2]))
	case "replay":
		if len(os.Args) < 3 {
			usage()
		}
		os.Exit(cmdReplay(os.Args[2]))
	case "list":
		if len(os.Args) < 3 {
			usage()
		}
		os.Exit(cmdList(os.Args[2]))
	default:
		usage()
	}
}
