package main

import (
	"fmt"
	"os"
	"go/constant"
	"go/token"
	"go/types"
	"math"
	"sort"
	"strings"

	"golang.org/x/tools/go/ssa"
)

// ---- engine / state ----

type Violation struct {
	Kind    string // "index", "slice", "nil", "assert", "panic", "alloc", "typeassert", "div"
	Label   string
	Where   string
	Model   map[string]uint64
	PathLen int
	Site    string
	Log     []string
}

type Engine struct {
	prog       *ssa.Program
	solver     *Solver
	targets    map[string]bool // package paths executed for real (others: stubs)
	nextObj    int
	constStrs  map[string]int // const string -> object id (global, immutable)
	globalObjs map[int]*Obj   // immutable global objects (const strings)
	inputs     []*Term        // declared nondet scalar inputs (for models)
	inputArrs  []inputArr
	Violations []Violation
	seenViol   map[string]bool
	Paths      int
	Steps      int
	Forks      int
	Reached    map[string]int
	MaxUnwind  int
	Unwound    int // paths cut by the unwinding bound
	errType    *types.Named
	Trace      bool
	Unsupported []string
	ObQueries   int
	Discharged  int
	leafCache map[*ssa.Function]bool
	mergeFns    map[string]bool
	cores       map[int][][]int
	pool        []*Model
	CoreHits    int
	PoolHits    int
	Merged      int
	extraForks  []*State
	skolem      int
	resetStub   bool
	profiles    map[*types.Named]*Profile
	pathLogs    map[string]int
	stubPkgs    map[string]bool
	reflectTok  *types.Named
	funcs       map[string]int
	Tier        int
	wantWitnesses int
	witnesses   []Witness
	witSeen     map[string]bool
	harnessName string
	stubsUsed   map[string]bool
	assumeTexts map[string]bool
	UnwoundAt   []string
	UnknownBranches int
	snaps       map[int]*Mem
	globalIDs   map[*ssa.Global][2]int
	overlay     map[string]string
	srcLines    map[string][]string
	lastPure    Value
	fnByName    map[string]*ssa.Function
	curInstr    ssa.Instruction
	inAtomic    bool
	NoDiamond   bool
	Diamonds    int
	Folded      int
}

type inputArr struct {
	name string
	arr  *Term
	len  *Term
	max  int
}

type Frame struct {
	fn     *ssa.Function
	env    map[ssa.Value]Value
	block  *ssa.BasicBlock
	prev   *ssa.BasicBlock
	ip     int
	defers []*ssa.Defer
	call   *ssa.Call // call instruction in the caller frame awaiting the result
	visits map[int]int
	dcalls []deferredCall
}

type deferredCall struct {
	fn   *ssa.Function
	bind []Value
	args []Value
	blt  string
}

type State struct {
	frames  []*Frame
	heap    map[int]*Obj
	globals map[*ssa.Global]int
	pc      []*Term
	done    bool
	retval  Value
	pending []pendOb
	model   *Model
	stopDepth int
	onDone  func(*State)
	pools   map[int][]Value
	log     []string
	allocLimit *Term
	observe []obsRec
	reached []string
	snaps   []snapRec
	poolPolicy int          // sync.Pool model: 0 reuse most recent, 1 always New(), 2 fork over both
	shared  map[int]bool    // objects reachable by other goroutines (thread-modular ownership check)
	sharing bool
	locks   int
	syncMaps map[int][]MapEntry
	atomicW  map[string]bool // shared cells written atomically
	plainR   map[string]bool // shared cells read non-atomically
	stubs    []stubRec
	sprintfs []sprintfRec
}

// sprintfRec: one fmt.Sprintf call (constant format, argument values) - the "output" of printing code
type sprintfRec struct {
	format string
	args   []Value
}

// stubRec remembers one call of a contract stub: its arguments (option structs are read back by the harness)
type stubRec struct {
	name   string
	args   []Value
	failed bool
}

type snapRec struct {
	obj int
	mem *Mem
}

type obsRec struct {
	name string
	t    *Term
}

func (st *State) clone() *State {
	n := &State{pc: append([]*Term(nil), st.pc...), pending: append([]pendOb(nil), st.pending...), model: st.model, stopDepth: st.stopDepth, onDone: st.onDone, allocLimit: st.allocLimit}
	n.observe = append([]obsRec(nil), st.observe...)
	n.reached = append([]string(nil), st.reached...)
	n.snaps = append([]snapRec(nil), st.snaps...)
	n.poolPolicy, n.sharing, n.locks = st.poolPolicy, st.sharing, st.locks
	n.stubs = append([]stubRec(nil), st.stubs...)
	if st.atomicW != nil || st.plainR != nil {
		n.atomicW, n.plainR = map[string]bool{}, map[string]bool{}
		for k := range st.atomicW {
			n.atomicW[k] = true
		}
		for k := range st.plainR {
			n.plainR[k] = true
		}
	}
	n.sprintfs = append([]sprintfRec(nil), st.sprintfs...)
	if st.syncMaps != nil {
		n.syncMaps = map[int][]MapEntry{}
		for k, v := range st.syncMaps {
			n.syncMaps[k] = v
		}
	}
	if st.shared != nil {
		n.shared = make(map[int]bool, len(st.shared))
		for k := range st.shared {
			n.shared[k] = true
		}
	}
	n.pools = map[int][]Value{}
	n.log = append([]string(nil), st.log...)
	for k, v := range st.pools {
		n.pools[k] = append([]Value(nil), v...)
	}
	n.heap = make(map[int]*Obj, len(st.heap))
	for k, v := range st.heap {
		n.heap[k] = v // objects are copy-on-write
	}
	n.globals = make(map[*ssa.Global]int, len(st.globals))
	for k, v := range st.globals {
		n.globals[k] = v
	}
	n.frames = make([]*Frame, len(st.frames))
	for i, f := range st.frames {
		nf := *f
		nf.env = make(map[ssa.Value]Value, len(f.env))
		for k, v := range f.env {
			nf.env[k] = v
		}
		nf.visits = make(map[int]int, len(f.visits))
		for k, v := range f.visits {
			nf.visits[k] = v
		}
		nf.defers = append([]*ssa.Defer(nil), f.defers...)
		nf.dcalls = append([]deferredCall(nil), f.dcalls...)
		n.frames[i] = &nf
	}
	return n
}

type pathEnd struct{ reason string }

func (e *Engine) newObj(st *State, o *Obj) int {
	e.nextObj++
	o.ID = e.nextObj
	st.heap[o.ID] = o
	return o.ID
}

func (e *Engine) obj(st *State, id int) *Obj {
	if o, ok := st.heap[id]; ok {
		return o
	}
	if o, ok := e.globalObjs[id]; ok {
		return o
	}
	panic(fmt.Sprintf("no object %d", id))
}

func (e *Engine) mutObj(st *State, id int) *Obj {
	if st.sharing && st.shared[id] && !e.inAtomic && st.locks == 0 {
		e.ownershipViolation(st, id)
	}
	o := e.obj(st, id).clone()
	st.heap[id] = o
	return o
}

// allocFor creates a heap object holding a value of type t and returns a pointer to it.
func (e *Engine) allocFor(st *State, t types.Type, name string) PtrV {
	if at, ok := t.Underlying().(*types.Array); ok {
		n := int(at.Len())
		if w, ok := scalarWidth(at.Elem()); ok {
			id := e.newObj(st, &Obj{Kind: OArr, Typ: at.Elem(), Arr: MemZero(w), W: w, Len: c64(uint64(n)), MaxLen: n, Name: name})
			return PtrV{Obj: id}
		}
		vec := make([]Value, n)
		for i := range vec {
			vec[i] = zero(at.Elem())
		}
		id := e.newObj(st, &Obj{Kind: OVec, Typ: at.Elem(), Vec: vec, Len: c64(uint64(n)), MaxLen: n, Name: name})
		return PtrV{Obj: id}
	}
	id := e.newObj(st, &Obj{Kind: OCell, Typ: t, Val: zero(t), Name: name})
	return PtrV{Obj: id}
}

func (e *Engine) constString(s string) StringV {
	if s == "" {
		return StringV{Off: c64(0), Len: c64(0)}
	}
	id, ok := e.constStrs[s]
	if !ok {
		arr := MemZero(8)
		for i := 0; i < len(s); i++ {
			arr = arr.Write(c64(uint64(i)), Const(8, uint64(s[i])))
		}
		e.nextObj++
		id = e.nextObj
		e.globalObjs[id] = &Obj{ID: id, Kind: OArr, Typ: types.Typ[types.Uint8], Arr: arr, W: 8, Len: c64(uint64(len(s))), MaxLen: len(s), Name: "conststr", Const: []byte(s)}
		e.constStrs[s] = id
	}
	return StringV{Obj: id, Off: c64(0), Len: c64(uint64(len(s)))}
}

// ---- memory access ----

func boolToBV8(b *Term) *Term { return Ite(b, Const(8, 1), Const(8, 0)) }
func bv8ToBool(v *Term) *Term { return Not(Eq(v, Const(8, 0))) }

func (e *Engine) load(st *State, p PtrV, t types.Type) Value {
	if st.sharing && st.shared[p.Obj] && st.locks == 0 {
		e.noteSharedAccess(st, p, e.inAtomic, false)
	}
	o := e.obj(st, p.Obj)
	switch o.Kind {
	case OArr:
		if len(p.Path) == 0 { // whole-array load
			elems := make([]Value, o.MaxLen)
			for i := range elems {
				v := o.Arr.Read(c64(uint64(i)))
				if isBool(o.Typ) {
					elems[i] = bv8ToBool(v)
				} else {
					elems[i] = v
				}
			}
			return ArrayV{Elems: elems}
		}
		v := o.Arr.Read(p.Path[0].Idx)
		if isBool(o.Typ) {
			return bv8ToBool(v)
		}
		return v
	case OVec:
		if len(p.Path) == 0 {
			return ArrayV{Elems: append([]Value(nil), o.Vec...)}
		}
		idx := p.Path[0].Idx
		if !idx.IsConst() {
			panic("symbolic index into non-scalar array")
		}
		return navLoad(o.Vec[idx.C], p.Path[1:])
	case OCell:
		v := navLoad(o.Val, p.Path)
		if t != nil {
			switch t.Underlying().(type) {
			case *types.Slice:
				if sv, ok := v.(StructV); ok && len(sv.Fields) == 2 { // struct{string; Cap int} viewed as []byte
					if str, ok := sv.Fields[0].(StringV); ok {
						return SliceV{Obj: str.Obj, Off: str.Off, Len: str.Len, Cap: sv.Fields[1].(*Term)}
					}
				}
			case *types.Basic:
				if sl, ok := v.(SliceV); ok && isString(t) { // []byte viewed as string
					return StringV{Obj: sl.Obj, Off: sl.Off, Len: sl.Len}
				}
			}
		}
		return v
	}
	panic("load: bad object kind")
}

func navLoad(v Value, path []PElem) Value {
	for _, pe := range path {
		switch tv := v.(type) {
		case StructV:
			v = tv.Fields[pe.Field]
		case ArrayV:
			if !pe.Idx.IsConst() {
				panic("symbolic index into array value")
			}
			v = tv.Elems[pe.Idx.C]
		default:
			panic(fmt.Sprintf("navLoad: cannot navigate %T", v))
		}
	}
	return v
}

func navStore(v Value, path []PElem, nv Value) Value {
	if len(path) == 0 {
		return nv
	}
	pe := path[0]
	switch tv := v.(type) {
	case StructV:
		f := append([]Value(nil), tv.Fields...)
		f[pe.Field] = navStore(f[pe.Field], path[1:], nv)
		return StructV{Fields: f}
	case ArrayV:
		if !pe.Idx.IsConst() {
			panic("symbolic index into array value")
		}
		el := append([]Value(nil), tv.Elems...)
		el[pe.Idx.C] = navStore(el[pe.Idx.C], path[1:], nv)
		return ArrayV{Elems: el}
	}
	panic(fmt.Sprintf("navStore: cannot navigate %T", v))
}

func (e *Engine) store(st *State, p PtrV, v Value) {
	o := e.mutObj(st, p.Obj)
	switch o.Kind {
	case OArr:
		if len(p.Path) == 0 { // whole-array store
			av := v.(ArrayV)
			for i, el := range av.Elems {
				tv := el.(*Term)
				if isBool(o.Typ) {
					tv = boolToBV8(tv)
				}
				o.Arr = o.Arr.Write(c64(uint64(i)), tv)
			}
			return
		}
		tv := v.(*Term)
		if isBool(o.Typ) {
			tv = boolToBV8(tv)
		}
		o.Arr = o.Arr.Write(p.Path[0].Idx, tv)
	case OVec:
		if len(p.Path) == 0 {
			o.Vec = append([]Value(nil), v.(ArrayV).Elems...)
			return
		}
		idx := p.Path[0].Idx
		if !idx.IsConst() {
			panic("symbolic index store into non-scalar array")
		}
		o.Vec[idx.C] = navStore(o.Vec[idx.C], p.Path[1:], v)
	case OCell:
		o.Val = navStore(o.Val, p.Path, v)
	}
}

// ---- obligations & branching ----

type pendOb struct {
	cond        *Term
	kind, label string
	where       string
	pcLen       int
	site        string
}

// check runs a satisfiability query and, when sat, returns a full model of the inputs. Two caches
// sit in front of the solver: a pool of earlier models (sat if one satisfies every conjunct) and a
// store of unsat cores (unsat if a cached core is a subset of the conjuncts).
func (e *Engine) check(conds []*Term) (Result, *Model) {
	ids := make(map[int]bool, len(conds))
	for _, c := range conds {
		if c.IsFalse() {
			return RUnsat, nil
		}
		ids[c.ID] = true
	}
	// unsat-core cache
	for _, c := range conds {
		for _, core := range e.cores[c.ID] {
			sub := true
			for _, id := range core {
				if !ids[id] {
					sub = false
					break
				}
			}
			if sub {
				e.CoreHits++
				return RUnsat, nil
			}
		}
	}
	// model pool
	for i := len(e.pool) - 1; i >= 0; i-- {
		m := e.pool[i]
		ok := true
		func() {
			defer func() {
				if r := recover(); r != nil {
					ok = false
				}
			}()
			for _, c := range conds {
				if m.Eval(c) == 0 {
					ok = false
					return
				}
			}
		}()
		if ok {
			e.PoolHits++
			return RSat, m
		}
	}
	// array cells: ask for every select-on-input-array term of this query together with its index
	pre, vars := TS.selectsIn(conds)
	mts := e.modelTerms(vars)
	for _, sel := range pre {
		mts = append(mts, sel)
		if !sel.Args[1].IsConst() {
			mts = append(mts, sel.Args[1])
		}
	}
	r, raw, err := e.solver.Check(conds, true, mts)
	if err != nil {
		panic(err)
	}
	if r == RUnsat && len(e.solver.LastCore) > 0 {
		core := make([]int, 0, len(e.solver.LastCore))
		for _, t := range e.solver.LastCore {
			core = append(core, t.ID)
		}
		for _, id := range core {
			if len(e.cores[id]) < 64 {
				e.cores[id] = append(e.cores[id], core)
			}
		}
	}
	if r != RSat {
		return r, nil
	}
	if raw == nil { // no variables in the query: any assignment is a model
		raw = &Model{BV: map[string]uint64{}, B: map[string]bool{}, Arr: map[string]*ArrModel{}}
	}
	m := &Model{BV: map[string]uint64{}, B: map[string]bool{}, Arr: map[string]*ArrModel{}}
	val := func(t *Term) uint64 {
		if t.IsConst() {
			return t.C
		}
		return raw.BV[t.ref()]
	}
	for _, ia := range e.inputArrs {
		m.Arr[ia.arr.Name] = &ArrModel{M: map[uint64]uint64{}, Partial: true}
	}
	for _, t := range mts {
		switch {
		case t.Op == "select" && t.Args[0].Op == "var":
			m.Arr[t.Args[0].Name].M[val(t.Args[1])] = val(t)
		case t.Op == "var" && t.S.K == SBool:
			m.B[t.Name] = raw.B[t.ref()]
		case t.Op == "var":
			m.BV[t.Name] = raw.BV[t.ref()]
		}
	}
	e.pool = append(e.pool, m)
	if len(e.pool) > 64 {
		e.pool = e.pool[1:]
	}
	return r, m
}

func (e *Engine) feasible(st *State, extra ...*Term) Result {
	conds := append(append([]*Term(nil), st.pc...), extra...)
	r, m := e.check(conds)
	if r == RSat && len(extra) == 0 {
		st.model = m
	}
	return r
}

func (e *Engine) modelTerms(vars map[*Term]bool) []*Term {
	var mt []*Term
	for _, in := range e.inputs {
		if vars[in] {
			mt = append(mt, in)
		}
	}
	for _, ia := range e.inputArrs {
		if !ia.len.IsConst() && vars[ia.len] {
			mt = append(mt, ia.len)
		}
		if ia.max <= 32 && vars[ia.arr] {
			for i := 0; i < ia.max; i++ {
				mt = append(mt, Select(ia.arr, c64(uint64(i))))
			}
		}
	}
	return mt
}

func (e *Engine) modelHolds(st *State, c *Term) (holds bool, known bool) {
	if st.model == nil {
		return false, false
	}
	defer func() {
		if r := recover(); r != nil {
			holds, known = false, false
		}
	}()
	return st.model.Eval(c) != 0, true
}

// extendPC appends c to the path condition, keeping the cached model only if it still satisfies c.
func (e *Engine) extendPC(st *State, c *Term) {
	st.pc = append(st.pc, c)
	if h, k := e.modelHolds(st, c); !(k && h) {
		st.model = nil
	}
}

// require adds a proof obligation: cond must hold on every input reaching here. Obligations are
// queued and discharged in one query per path segment (see flush).
func (e *Engine) require(st *State, cond *Term, kind, label string, where ssa.Instruction) {
	if cond.IsTrue() {
		e.Folded++ // decided by the term simplifier on this path (concrete types, known bits): no solver call needed
		return
	}
	w, site := e.whereOf(st, where)
	st.pending = append(st.pending, pendOb{cond, kind, label, w, len(st.pc), site})
	if cond.IsFalse() {
		e.flush(st)
		panic(pathEnd{"obligation always fails: " + kind})
	}
	e.extendPC(st, cond)
}

// flush discharges all queued obligations of st: one query asks whether any of them can fail under
// its own path-condition prefix; on sat the failing ones are identified from the model, recorded,
// and the query repeated without them.
func (e *Engine) flush(st *State) {
	for len(st.pending) > 0 {
		// prefix conjunctions
		pre := make([]*Term, len(st.pc)+1)
		pre[0] = True()
		for i, c := range st.pc {
			pre[i+1] = And(pre[i], c)
		}
		var bad []*Term
		for _, ob := range st.pending {
			bad = append(bad, And(pre[ob.pcLen], Not(ob.cond)))
		}
		q := Or(bad...)
		r, m := e.check([]*Term{q})
		e.ObQueries++
		if r == RUnsat {
			e.Discharged += len(st.pending)
			st.pending = nil
			return
		}
		// find a failing obligation under the model (or blame the first on unknown)
		idx := 0
		if m != nil {
			for i, b := range bad {
				if m.Eval(b) != 0 {
					idx = i
					break
				}
			}
		}
		ob := st.pending[idx]
		key := ob.kind + "|" + ob.label + "|" + ob.where
		if !e.seenViol[key] {
			e.seenViol[key] = true
			v := Violation{Kind: ob.kind, Label: ob.label, Where: ob.where, PathLen: ob.pcLen, Site: ob.site, Log: append([]string(nil), st.log...)}
			if r == RUnknown {
				v.Kind = "unknown:" + ob.kind
			}
			if m != nil {
				v.Model = map[string]uint64{}
				for k, x := range m.BV {
					v.Model[k] = x
				}
				for k, x := range m.B {
					if x {
						v.Model[k] = 1
					} else {
						v.Model[k] = 0
					}
				}
				for an, am := range m.Arr {
					for i, x := range am.M {
						v.Model[fmt.Sprintf("%s[%d]", an, i)] = x
					}
				}
			}
			e.Violations = append(e.Violations, v)
		}
		st.pending = append(st.pending[:idx:idx], st.pending[idx+1:]...)
		st.model = nil
		if len(st.pending) == 0 {
			if e.feasible(st) == RUnsat {
				panic(pathEnd{"infeasible after violated obligation"})
			}
		}
	}
}

func (e *Engine) assume(st *State, cond *Term) {
	if cond.IsTrue() {
		return
	}
	e.extendPC(st, cond)
	if cond.IsFalse() {
		panic(pathEnd{"assumption infeasible"})
	}
	if st.model == nil && e.feasible(st) == RUnsat {
		panic(pathEnd{"assumption infeasible"})
	}
}

// ---- evaluation of operands ----

func (e *Engine) val(st *State, f *Frame, v ssa.Value) Value {
	switch x := v.(type) {
	case *ssa.Const:
		return e.constVal(x)
	case *ssa.Global:
		return e.globalPtr(st, x)
	case *ssa.Function:
		return FuncV{Fn: x}
	case *ssa.Builtin:
		return FuncV{Blt: x}
	}
	if r, ok := f.env[v]; ok {
		return r
	}
	panic(fmt.Sprintf("no value for %s (%T) in %s", v.Name(), v, f.fn))
}

func (e *Engine) constVal(c *ssa.Const) Value {
	t := c.Type()
	if c.Value == nil {
		return zero(t)
	}
	switch u := t.Underlying().(type) {
	case *types.Basic:
		switch {
		case u.Info()&types.IsBoolean != 0:
			return BoolC(constant.BoolVal(c.Value))
		case u.Info()&types.IsString != 0:
			return e.constString(constant.StringVal(c.Value))
		case u.Info()&types.IsFloat != 0:
			f, _ := constant.Float64Val(c.Value)
			if u.Kind() == types.Float32 {
				return Const(32, uint64(math.Float32bits(float32(f))))
			}
			return Const(64, math.Float64bits(f))
		case u.Info()&types.IsInteger != 0:
			w, signed, _ := basicWidth(u)
			if signed {
				return Const(w, uint64(c.Int64()))
			}
			return Const(w, c.Uint64())
		}
	}
	panic(fmt.Sprintf("constVal: unsupported const %v : %v", c, t))
}

func (e *Engine) globalPtr(st *State, g *ssa.Global) PtrV {
	if id, ok := st.globals[g]; ok {
		return PtrV{Obj: id}
	}
	// Globals are materialised lazily, with object ids that depend only on the global (not on the path
	// that touches it first), so that the same global is the same object on every path.
	if e.globalIDs == nil {
		e.globalIDs = map[*ssa.Global][2]int{}
	}
	ids, ok := e.globalIDs[g]
	if !ok {
		e.nextObj += 2
		ids = [2]int{e.nextObj - 1, e.nextObj}
		e.globalIDs[g] = ids
	}
	t := deref(g.Type())
	saved := e.nextObj
	e.nextObj = ids[0] - 1
	p := e.allocFor(st, t, "global:"+g.String())
	e.nextObj = saved
	st.globals[g] = p.Obj
	if st.sharing {
		st.shared[p.Obj] = true
	}
	// error-typed globals of non-target packages: distinct opaque errors
	if g.Pkg != nil && !e.targets[g.Pkg.Pkg.Path()] {
		if types.Identical(t, types.Universe.Lookup("error").Type()) {
			saved := e.nextObj
			e.nextObj = ids[1] - 1
			ev := e.newError(st, g.String(), nil)
			e.nextObj = saved
			was := e.inAtomic
			e.inAtomic = true // materialising the initial value is not a write of the program
			e.store(st, p, ev)
			e.inAtomic = was
		}
	}
	return p
}

func (e *Engine) newError(st *State, msg string, wraps []Value) IfaceV {
	st2 := types.NewStruct([]*types.Var{
		types.NewField(token.NoPos, nil, "msg", types.Typ[types.String], false),
	}, nil)
	_ = st2
	id := e.newObj(st, &Obj{Kind: OVec, Typ: types.Universe.Lookup("error").Type(), Vec: append([]Value(nil), wraps...), Len: c64(uint64(len(wraps))), Name: "error:" + msg})
	return IfaceV{T: types.NewPointer(e.errType), V: PtrV{Obj: id}}
}

// ---- main loop ----

func (e *Engine) Run(fn *ssa.Function, init func(st *State)) {
	st0 := &State{heap: map[int]*Obj{}, globals: map[*ssa.Global]int{}, pools: map[int][]Value{}}
	if init != nil {
		init(st0)
	}
	e.pushFrame(st0, fn, nil, nil, nil)
	e.explore(st0)
}

func (e *Engine) explore(st0 *State) {
	stack := []*State{st0}
	for len(stack) > 0 {
		st := stack[len(stack)-1]
		stack = stack[:len(stack)-1]
		forks := e.runPath(st)
		stack = append(stack, forks...)
		stack = append(stack, e.extraForks...)
		e.extraForks = nil
	}
}

// mergeCall runs a side-effect-free callee on all its paths and joins the scalar results into one
// ite-term, so that the caller continues as a single state. Returns false if the callee is not
// mergeable (heap mutation or non-scalar result); the caller then performs an ordinary call.
func (e *Engine) mergeCall(st *State, f *Frame, x *ssa.Call, fn *ssa.Function, args []Value) bool {
	return e.mergeCallBind(st, f, x, fn, args, nil)
}

// mergeCallBind is mergeCall for closures; with x == nil the (single-group) joined result is left in e.lastPure
func (e *Engine) mergeCallBind(st *State, f *Frame, x *ssa.Call, fn *ssa.Function, args []Value, bind []Value) bool {
	e.flush(st)
	type res struct {
		ext []*Term
		ret Value
	}
	var results []res
	ok := true
	newObjs := map[int]*Obj{}
	newGlobals := map[*ssa.Global]int{}
	base := st.clone()
	depth := len(base.frames)
	base.stopDepth = depth
	npc := len(st.pc)
	savedPaths := e.Paths
	base.onDone = func(s *State) {
		if len(s.frames) != depth {
			return // path ended inside the callee (obligation failure etc.)
		}
		for id, o := range st.heap {
			if s.heap[id] != o {
				ok = false
			}
		}
		var rv Value
		if x != nil {
			rv = s.frames[depth-1].env[x]
		} else {
			rv = s.retval
		}
		results = append(results, res{append([]*Term(nil), s.pc[npc:]...), rv})
		for id, o := range s.heap {
			if _, have := st.heap[id]; !have {
				newObjs[id] = o
			}
		}
		for g, id := range s.globals {
			if _, have := st.globals[g]; !have {
				newGlobals[g] = id
			}
		}
	}
	e.pushFrame(base, fn, args, bind, x)
	outerForks := e.extraForks
	e.extraForks = nil
	e.explore(base)
	e.extraForks = outerForks
	e.Paths = savedPaths
	if !ok || len(results) == 0 {
		return false
	}
	// Group the callee's paths by the shape of their non-scalar result components (e.g. which error
	// object is returned); within a group the scalar components are joined into ite-terms. One group:
	// the caller continues as a single state. Several groups: one successor state per group.
	type group struct {
		key string
		idx []int
	}
	var groups []*group
	byKey := map[string]*group{}
	for i, r := range results {
		k, good := shapeKey(r.ret)
		if !good {
			return false
		}
		g := byKey[k]
		if g == nil {
			g = &group{key: k}
			byKey[k] = g
			groups = append(groups, g)
		}
		g.idx = append(g.idx, i)
	}
	if os.Getenv("VSYM_DEBUG_MERGE") != "" {
		fmt.Fprintf(os.Stderr, "merge %s: %d results, %d groups\n", fn.Name(), len(results), len(groups))
		for _, g := range groups {
			fmt.Fprintf(os.Stderr, "   %s x%d\n", g.key, len(g.idx))
		}
	}
	if len(groups) > 8 {
		return false
	}
	joined := make([]Value, len(groups))
	conds := make([]*Term, len(groups))
	for gi, g := range groups {
		last := g.idx[len(g.idx)-1]
		acc := results[last].ret
		var disj []*Term
		disj = append(disj, And(results[last].ext...))
		for k := len(g.idx) - 2; k >= 0; k-- {
			r := results[g.idx[k]]
			c := And(r.ext...)
			v, good := mergeVal(c, r.ret, acc)
			if !good {
				return false
			}
			acc = v
			disj = append(disj, c)
		}
		joined[gi] = acc
		conds[gi] = Or(disj...)
	}
	e.Merged++
	for id, o := range newObjs {
		st.heap[id] = o
	}
	for g, id := range newGlobals {
		st.globals[g] = id
	}
	if x == nil {
		if len(groups) != 1 {
			return false
		}
		e.lastPure = joined[0]
		return true
	}
	if len(groups) == 1 {
		f.env[x] = joined[0]
		return true
	}
	for gi := 1; gi < len(groups); gi++ {
		o := st.clone()
		of := o.frames[len(o.frames)-1]
		of.env[x] = joined[gi]
		o.pc = append(o.pc, conds[gi])
		o.model = nil
		e.extraForks = append(e.extraForks, o)
		e.Forks++
	}
	f.env[x] = joined[0]
	st.pc = append(st.pc, conds[0])
	st.model = nil
	return true
}

// shapeKey describes the non-scalar structure of a call result; results with equal keys can be joined.
func shapeKey(v Value) (string, bool) {
	switch tv := v.(type) {
	case nil:
		return "-", true
	case *Term:
		return "t" + tv.S.String(), true
	case TupleV:
		var sb strings.Builder
		for _, x := range tv {
			k, ok := shapeKey(x)
			if !ok {
				return "", false
			}
			sb.WriteString(k)
			sb.WriteByte(';')
		}
		return sb.String(), true
	case IfaceV:
		if tv.T == nil {
			return "nil", true
		}
		if p, ok := tv.V.(PtrV); ok {
			return fmt.Sprintf("i:%s:%d:%v", tv.T.String(), p.Obj, p.Path), true
		}
		return "", false
	case SliceV:
		return fmt.Sprintf("s:%d", tv.Obj), true
	case StringV:
		return fmt.Sprintf("str:%d", tv.Obj), true
	case PtrV:
		return fmt.Sprintf("p:%d:%v", tv.Obj, tv.Path), true
	}
	return "", false
}

func (e *Engine) pushFrame(st *State, fn *ssa.Function, args []Value, bind []Value, call *ssa.Call) {
	if fn.Blocks == nil {
		panic(fmt.Sprintf("no body for %s", fn))
	}
	if e.funcs != nil {
		if _, ok := e.funcs[fn.String()]; !ok {
			n := 0
			for _, b := range fn.Blocks {
				n += len(b.Instrs)
			}
			e.funcs[fn.String()] = n
		}
	}
	f := &Frame{fn: fn, env: map[ssa.Value]Value{}, block: fn.Blocks[0], call: call, visits: map[int]int{}}
	for i, p := range fn.Params {
		f.env[p] = args[i]
	}
	for i, fv := range fn.FreeVars {
		f.env[fv] = bind[i]
	}
	st.frames = append(st.frames, f)
}

// runPath executes st until it ends or forks; returns forked states to explore.
func (e *Engine) runPath(st *State) (forks []*State) {
	defer func() {
		if r := recover(); r != nil {
			if pe, ok := r.(pathEnd); ok {
				if e.Trace {
					fmt.Println("path end:", pe.reason)
				}
				e.flush(st)
				e.Paths++
				forks = nil
				return
			}
			panic(r)
		}
	}()
	for {
		if len(st.frames) <= st.stopDepth {
			e.flush(st)
			e.Paths++
			if e.pathLogs != nil && st.stopDepth == 0 {
				e.pathLogs[logKey(st)]++
			}
			if st.stopDepth == 0 {
				e.recordWitness(st)
			}
			if st.onDone != nil {
				st.onDone(st)
			}
			return nil
		}
		f := st.frames[len(st.frames)-1]
		if f.ip >= len(f.block.Instrs) {
			panic("fell off block")
		}
		in := f.block.Instrs[f.ip]
		f.ip++
		e.Steps++
		if e.Trace {
			fmt.Printf("  [%s b%d] %s\n", f.fn.Name(), f.block.Index, in)
		}
		if fk := e.step(st, f, in); fk != nil {
			return fk
		}
	}
}

func (e *Engine) jump(f *Frame, to *ssa.BasicBlock) {
	f.prev = f.block
	f.block = to
	f.ip = 0
	f.visits[to.Index]++
	if e.MaxUnwind > 0 && f.visits[to.Index] > e.MaxUnwind {
		e.Unwound++
		if len(e.UnwoundAt) < 8 {
			e.UnwoundAt = append(e.UnwoundAt, fmt.Sprintf("%s block %d", f.fn, to.Index))
		}
		panic(pathEnd{fmt.Sprintf("unwinding bound hit in %s block %d", f.fn, to.Index)})
	}
}

func (e *Engine) step(st *State, f *Frame, in ssa.Instruction) []*State {
	e.curInstr = in
	switch x := in.(type) {
	case *ssa.DebugRef:
	case *ssa.Phi:
		// evaluate all phis of this block simultaneously
		var phis []*ssa.Phi
		for _, i2 := range f.block.Instrs {
			if p, ok := i2.(*ssa.Phi); ok {
				phis = append(phis, p)
			} else {
				break
			}
		}
		idx := -1
		for i, p := range f.block.Preds {
			if p == f.prev {
				idx = i
			}
		}
		vals := make([]Value, len(phis))
		for i, p := range phis {
			vals[i] = e.val(st, f, p.Edges[idx])
		}
		for i, p := range phis {
			f.env[p] = vals[i]
		}
		f.ip = len(phis)
	case *ssa.Alloc:
		f.env[x] = e.allocFor(st, deref(x.Type()), x.Comment)
	case *ssa.BinOp:
		f.env[x] = e.binop(st, x, e.val(st, f, x.X), e.val(st, f, x.Y))
	case *ssa.UnOp:
		f.env[x] = e.unop(st, f, x)
	case *ssa.Store:
		p := e.val(st, f, x.Addr).(PtrV)
		e.require(st, BoolC(p.Obj != 0), "nil", "store through nil pointer", x)
		e.store(st, p, e.val(st, f, x.Val))
	case *ssa.FieldAddr:
		p := e.val(st, f, x.X).(PtrV)
		e.require(st, BoolC(p.Obj != 0), "nil", "field of nil pointer", x)
		np := PtrV{Obj: p.Obj, Path: append(append([]PElem(nil), p.Path...), PElem{Field: x.Field})}
		f.env[x] = np
	case *ssa.Field:
		f.env[x] = e.val(st, f, x.X).(StructV).Fields[x.Field]
	case *ssa.IndexAddr:
		f.env[x] = e.indexAddr(st, f, x)
	case *ssa.Index:
		f.env[x] = e.index(st, f, x)
	case *ssa.Slice:
		f.env[x] = e.slice(st, f, x)
	case *ssa.MakeSlice:
		f.env[x] = e.makeSlice(st, f, x)
	case *ssa.Extract:
		f.env[x] = e.val(st, f, x.Tuple).(TupleV)[x.Index]
	case *ssa.ChangeType:
		f.env[x] = e.val(st, f, x.X)
	case *ssa.ChangeInterface:
		f.env[x] = e.val(st, f, x.X)
	case *ssa.Convert:
		f.env[x] = e.convert(st, x, e.val(st, f, x.X))
	case *ssa.MakeInterface:
		f.env[x] = IfaceV{T: x.X.Type(), V: e.val(st, f, x.X)}
	case *ssa.MakeClosure:
		b := make([]Value, len(x.Bindings))
		for i, bv := range x.Bindings {
			b[i] = e.val(st, f, bv)
		}
		f.env[x] = FuncV{Fn: x.Fn.(*ssa.Function), Bind: b}
	case *ssa.TypeAssert:
		f.env[x] = e.typeAssert(st, f, x)
	case *ssa.MakeMap:
		id := e.newObj(st, &Obj{Kind: OMap, Typ: x.Type()})
		f.env[x] = MapV{Obj: id}
	case *ssa.MapUpdate:
		e.mapUpdate(st, e.val(st, f, x.Map).(MapV), e.val(st, f, x.Key), e.val(st, f, x.Value), x)
	case *ssa.Lookup:
		f.env[x] = e.lookup(st, f, x)
	case *ssa.Range:
		if sv, isStr := e.val(st, f, x.X).(StringV); isStr {
			// range over a string: the iterator remembers the string and a position
			id := e.newObj(st, &Obj{Kind: OCell, Val: StructV{Fields: []Value{sv, c64(0)}}, Name: "striter"})
			f.env[x] = PtrV{Obj: id}
			break
		}
		mv, ok := e.val(st, f, x.X).(MapV)
		if !ok {
			panic("range over this operand type is unsupported")
		}
		var ents []MapEntry
		if mv.Obj != 0 {
			ents = append(ents, e.obj(st, mv.Obj).Ents...)
		}
		id := e.newObj(st, &Obj{Kind: OMap, Ents: ents, Name: "iter"})
		f.env[x] = PtrV{Obj: id}
	case *ssa.Next:
		it := e.val(st, f, x.Iter).(PtrV)
		if x.IsString {
			o := e.mutObj(st, it.Obj)
			sv := o.Val.(StructV).Fields[0].(StringV)
			pos := o.Val.(StructV).Fields[1].(*Term)
			if !sv.Len.IsConst() || !pos.IsConst() {
				panic("range over a string of symbolic length is unsupported")
			}
			if pos.C >= sv.Len.C {
				f.env[x] = TupleV{False(), c64(0), Const(32, 0)}
				break
			}
			b := e.obj(st, sv.Obj).Arr.Read(BinBV("bvadd", sv.Off, pos))
			// model restricted to ASCII text: one byte is one rune
			e.assume(st, Cmp("bvult", b, Const(8, 0x80)))
			if e.assumeTexts != nil {
				e.assumeTexts["engine: range over string - bytes restricted to ASCII (< 0x80), one byte per rune"] = true
			}
			o.Val = StructV{Fields: []Value{sv, c64(pos.C + 1)}}
			f.env[x] = TupleV{True(), pos, ZExt(32, b)}
			break
		}
		o := e.mutObj(st, it.Obj)
		tt := x.Type().(*types.Tuple)
		if len(o.Ents) == 0 {
			f.env[x] = TupleV{False(), zero(tt.At(1).Type()), zero(tt.At(2).Type())}
		} else {
			en := o.Ents[0]
			o.Ents = o.Ents[1:]
			f.env[x] = TupleV{True(), en.K, en.V}
		}
	case *ssa.Jump:
		e.jump(f, f.block.Succs[0])
	case *ssa.If:
		c := e.val(st, f, x.Cond).(*Term)
		if c.IsTrue() {
			e.jump(f, f.block.Succs[0])
			return nil
		}
		if c.IsFalse() {
			e.jump(f, f.block.Succs[1])
			return nil
		}
		if _, isD := diamondJoin(f.block.Succs[0], f.block.Succs[1]); isD && e.tryDiamond(st, f, c) {
			return nil
		}
		side := func(cc *Term) (Result, *Model) {
			return e.check(append(append([]*Term(nil), st.pc...), cc))
		}
		var rt, rf Result
		var mt, mf *Model
		if h, k := e.modelHolds(st, c); k {
			if h {
				rt, mt = RSat, st.model
				rf, mf = side(Not(c))
			} else {
				rf, mf = RSat, st.model
				rt, mt = side(c)
			}
		} else {
			rt, mt = side(c)
			if rt == RUnsat {
				rf, mf = RSat, nil // pc is feasible by invariant
			} else {
				rf, mf = side(Not(c))
			}
		}
		switch {
		case rt != RUnsat && rf != RUnsat:
			e.Forks++
			e.flush(st)
			other := st.clone()
			of := other.frames[len(other.frames)-1]
			other.pc = append(other.pc, Not(c))
			other.model = mf
			st.pc = append(st.pc, c)
			st.model = mt
			out := []*State{}
			for _, pr := range []struct {
				s  *State
				fr *Frame
				to int
			}{{other, of, 1}, {st, f, 0}} {
				func() {
					defer func() {
						if r := recover(); r != nil {
							if _, ok := r.(pathEnd); ok {
								e.Paths++
								return
							}
							panic(r)
						}
					}()
					e.jump(pr.fr, pr.fr.block.Succs[pr.to])
					out = append(out, pr.s)
				}()
			}
			return out
		case rt != RUnsat:
			st.pc = append(st.pc, c)
			st.model = mt
			e.jump(f, f.block.Succs[0])
		case rf != RUnsat:
			st.pc = append(st.pc, Not(c))
			st.model = mf
			e.jump(f, f.block.Succs[1])
		default:
			panic(pathEnd{"both branches infeasible"})
		}
	case *ssa.Return:
		var rv Value
		switch len(x.Results) {
		case 0:
		case 1:
			rv = e.val(st, f, x.Results[0])
		default:
			tv := make(TupleV, len(x.Results))
			for i, r := range x.Results {
				tv[i] = e.val(st, f, r)
			}
			rv = tv
		}
		st.frames = st.frames[:len(st.frames)-1]
		if len(st.frames) > 0 && f.call != nil {
			caller := st.frames[len(st.frames)-1]
			caller.env[f.call] = rv
		} else {
			st.retval = rv
		}
	case *ssa.Call:
		e.call(st, f, x)
	case *ssa.Panic:
		e.require(st, False(), "panic", "explicit panic", x)
	case *ssa.RunDefers:
		if n := len(f.dcalls); n > 0 {
			dc := f.dcalls[n-1]
			f.dcalls = f.dcalls[:n-1]
			f.ip-- // come back to RunDefers after the deferred call returns
			switch {
			case dc.blt != "":
				e.builtin(st, f, nil, dc.blt, dc.args)
			case dc.fn != nil:
				if res, ok := e.intrinsic(st, f, nil, dc.fn, dc.fn.String(), dc.args); ok {
					_ = res
				} else {
					e.pushFrame(st, dc.fn, dc.args, dc.bind, nil)
				}
			}
		}
	case *ssa.Defer:
		c := x.Common()
		var dc deferredCall
		if c.IsInvoke() {
			recv := e.val(st, f, c.Value).(IfaceV)
			e.require(st, BoolC(recv.T != nil), "nil", "deferred method call on nil interface", x)
			dc.fn = e.prog.LookupMethod(recv.T, c.Method.Pkg(), c.Method.Name())
			dc.args = append(dc.args, recv.V)
		} else {
			switch fv := c.Value.(type) {
			case *ssa.Builtin:
				dc.blt = fv.Name()
			case *ssa.Function:
				dc.fn = fv
			default:
				v := e.val(st, f, c.Value).(FuncV)
				dc.fn, dc.bind = v.Fn, v.Bind
			}
		}
		for _, a := range c.Args {
			dc.args = append(dc.args, e.val(st, f, a))
		}
		f.dcalls = append(f.dcalls, dc)
	default:
		e.Unsupported = append(e.Unsupported, fmt.Sprintf("%T in %s", in, f.fn))
		panic(fmt.Sprintf("unsupported instruction %T: %s in %s", in, in, f.fn))
	}
	return nil
}

// ---- operators ----

func (e *Engine) binop(st *State, x *ssa.BinOp, a, b Value) Value {
	t := x.X.Type()
	switch av := a.(type) {
	case *Term:
		bv := b.(*Term)
		if av.S.K == SBool {
			switch x.Op {
			case token.EQL:
				return Eq(av, bv)
			case token.NEQ:
				return Not(Eq(av, bv))
			case token.AND, token.LAND:
				return And(av, bv)
			case token.OR, token.LOR:
				return Or(av, bv)
			}
			panic("bool binop " + x.Op.String())
		}
		if isFloat(t) {
			w, _ := intInfo(t)
			eq := floatEq(w, av, bv)
			switch x.Op {
			case token.EQL:
				return eq
			case token.NEQ:
				return Not(eq)
			}
			panic("float arithmetic/ordering unsupported: " + x.String())
		}
		w, signed := intInfo(t)
		switch x.Op {
		case token.ADD:
			return BinBV("bvadd", av, bv)
		case token.SUB:
			return BinBV("bvsub", av, bv)
		case token.MUL:
			return BinBV("bvmul", av, bv)
		case token.AND:
			return BinBV("bvand", av, bv)
		case token.OR:
			return BinBV("bvor", av, bv)
		case token.XOR:
			return BinBV("bvxor", av, bv)
		case token.AND_NOT:
			return BinBV("bvand", av, NotBV(bv))
		case token.QUO, token.REM:
			e.require(st, Not(Eq(bv, Const(w, 0))), "div", "integer divide by zero", x)
			op := map[bool]map[token.Token]string{true: {token.QUO: "bvsdiv", token.REM: "bvsrem"}, false: {token.QUO: "bvudiv", token.REM: "bvurem"}}[signed][x.Op]
			return BinBV(op, av, bv)
		case token.SHL, token.SHR:
			// shift count has its own type
			cw, csigned := intInfo(x.Y.Type())
			if csigned {
				e.require(st, Not(Cmp("bvslt", bv, Const(cw, 0))), "shift", "negative shift amount", x)
			}
			var cnt *Term
			big := False()
			if cw > w {
				big = Not(Cmp("bvult", bv, Const(cw, uint64(w))))
				cnt = Extract(w-1, 0, bv)
			} else {
				cnt = ZExt(w, bv)
			}
			op := "bvshl"
			var fill *Term = Const(w, 0)
			if x.Op == token.SHR {
				if signed {
					op = "bvashr"
					fill = BinBV("bvashr", av, Const(w, uint64(w-1)))
				} else {
					op = "bvlshr"
				}
			}
			return Ite(big, fill, BinBV(op, av, cnt))
		case token.EQL:
			return Eq(av, bv)
		case token.NEQ:
			return Not(Eq(av, bv))
		case token.LSS:
			if signed {
				return Cmp("bvslt", av, bv)
			}
			return Cmp("bvult", av, bv)
		case token.LEQ:
			if signed {
				return Cmp("bvsle", av, bv)
			}
			return Cmp("bvule", av, bv)
		case token.GTR:
			if signed {
				return Cmp("bvslt", bv, av)
			}
			return Cmp("bvult", bv, av)
		case token.GEQ:
			if signed {
				return Cmp("bvsle", bv, av)
			}
			return Cmp("bvule", bv, av)
		}
	case IfaceV:
		bi := b.(IfaceV)
		eq := e.ifaceEq(av, bi)
		if x.Op == token.EQL {
			return BoolC(eq)
		}
		return BoolC(!eq)
	case PtrV:
		bp := b.(PtrV)
		eq := ptrEq(av, bp)
		if x.Op == token.EQL {
			return BoolC(eq)
		}
		return BoolC(!eq)
	case SliceV: // comparison with nil only
		bs := b.(SliceV)
		eq := (av.Obj == 0) == (bs.Obj == 0) && (av.Obj == 0 || bs.Obj == 0) && av.Obj == 0 && bs.Obj == 0
		if x.Op == token.EQL {
			return BoolC(eq)
		}
		return BoolC(!eq)
	case StringV:
		bs := b.(StringV)
		eq := e.stringEq(st, av, bs)
		switch x.Op {
		case token.EQL:
			return eq
		case token.NEQ:
			return Not(eq)
		case token.ADD:
			ca, cb := e.constOf(st, av), e.constOf(st, bs)
			if ca != nil && cb != nil {
				return e.constString(string(*ca) + string(*cb))
			}
			panic("string concatenation of non-constant strings is unsupported")
		}
	case FuncV:
		bf := b.(FuncV)
		eq := av.Fn == nil && av.Blt == nil && bf.Fn == nil && bf.Blt == nil
		if x.Op == token.EQL {
			return BoolC(eq)
		}
		return BoolC(!eq)
	case MapV:
		bm := b.(MapV)
		eq := av.Obj == bm.Obj
		if x.Op == token.EQL {
			return BoolC(eq)
		}
		return BoolC(!eq)
	}
	panic(fmt.Sprintf("binop %s on %T unsupported", x.Op, a))
}

func ptrEq(a, b PtrV) bool {
	if a.Obj != b.Obj || len(a.Path) != len(b.Path) {
		return false
	}
	for i := range a.Path {
		if a.Path[i].Field != b.Path[i].Field || a.Path[i].Idx != b.Path[i].Idx {
			return false
		}
	}
	return true
}

func (e *Engine) ifaceEq(a, b IfaceV) bool {
	if a.T == nil || b.T == nil {
		return a.T == nil && b.T == nil
	}
	if !types.Identical(a.T, b.T) {
		return false
	}
	switch av := a.V.(type) {
	case PtrV:
		return ptrEq(av, b.V.(PtrV))
	case *Term:
		bt := b.V.(*Term)
		if av == bt {
			return true
		}
		if av.IsConst() && bt.IsConst() {
			return av.C == bt.C
		}
		panic("symbolic interface payload comparison unsupported")
	}
	panic(fmt.Sprintf("ifaceEq on %T unsupported", a.V))
}

// stringEq builds len-equality plus bounded pointwise equality.
func (e *Engine) stringEq(st *State, a, b StringV) *Term {
	if a.Obj == 0 && b.Obj == 0 {
		return Eq(a.Len, b.Len)
	}
	bound := 0
	var aa, ba *Mem
	if a.Obj != 0 {
		o := e.obj(st, a.Obj)
		bound = o.MaxLen
		aa = o.Arr
	}
	if b.Obj != 0 {
		o := e.obj(st, b.Obj)
		if bound == 0 || o.MaxLen < bound {
			bound = o.MaxLen
		}
		ba = o.Arr
	}
	if aa == nil || ba == nil {
		return Eq(a.Len, b.Len) // one side is the empty string
	}
	conj := []*Term{Eq(a.Len, b.Len)}
	for i := 0; i < bound; i++ {
		ci := c64(uint64(i))
		conj = append(conj, Implies(Cmp("bvult", ci, a.Len), Eq(aa.Read(BinBV("bvadd", a.Off, ci)), ba.Read(BinBV("bvadd", b.Off, ci)))))
	}
	return And(conj...)
}

func (e *Engine) unop(st *State, f *Frame, x *ssa.UnOp) Value {
	v := e.val(st, f, x.X)
	switch x.Op {
	case token.MUL:
		p := v.(PtrV)
		e.require(st, BoolC(p.Obj != 0), "nil", "load through nil pointer", x)
		return e.load(st, p, x.Type())
	case token.NOT:
		return Not(v.(*Term))
	case token.SUB:
		if isFloat(x.Type()) {
			panic("float negation unsupported")
		}
		return NegBV(v.(*Term))
	case token.XOR:
		return NotBV(v.(*Term))
	}
	panic("unop " + x.Op.String())
}

func (e *Engine) convert(st *State, x *ssa.Convert, v Value) Value {
	from, to := x.X.Type().Underlying(), x.Type().Underlying()
	switch tv := v.(type) {
	case *Term:
		fb, ok1 := from.(*types.Basic)
		tb, ok2 := to.(*types.Basic)
		if ok1 && ok2 && fb.Info()&types.IsInteger != 0 && tb.Info()&types.IsInteger != 0 {
			fw, fs, _ := basicWidth(fb)
			tw, _, _ := basicWidth(tb)
			_ = fw
			if fs {
				return SExt(tw, tv)
			}
			return ZExt(tw, tv)
		}
		if ok1 && ok2 && fb.Kind() == tb.Kind() {
			return tv
		}
		panic(fmt.Sprintf("convert %v -> %v unsupported", from, to))
	case SliceV: // []byte -> string
		if isString(x.Type()) {
			if tv.Obj == 0 {
				return StringV{Off: c64(0), Len: c64(0)}
			}
			no := e.copyOut(st, tv.Obj, tv.Off, tv.Len, "string(b)")
			return StringV{Obj: no, Off: c64(0), Len: tv.Len}
		}
	case StringV: // string -> []byte
		if _, ok := to.(*types.Slice); ok {
			if tv.Obj == 0 {
				id := e.newObj(st, &Obj{Kind: OArr, Typ: types.Typ[types.Uint8], Arr: MemZero(8), W: 8, Len: c64(0), Name: "[]byte(s)"})
				return SliceV{Obj: id, Off: c64(0), Len: c64(0), Cap: c64(0)}
			}
			no := e.copyOut(st, tv.Obj, tv.Off, tv.Len, "[]byte(s)")
			return SliceV{Obj: no, Off: c64(0), Len: tv.Len, Cap: tv.Len}
		}
	case PtrV:
		return tv // pointer <-> unsafe.Pointer (reinterpretation handled at load time; prototype: identity)
	}
	panic(fmt.Sprintf("convert %v -> %v (%T) unsupported", from, to, v))
}

// copyOut creates a fresh array object holding src[off:off+n] (bounded pointwise copy).
func (e *Engine) copyOut(st *State, src int, off, n *Term, name string) int {
	so := e.obj(st, src)
	arr := MemCopy(MemZero(so.W), c64(0), so.Arr, off, n)
	return e.newObj(st, &Obj{Kind: OArr, Typ: so.Typ, Arr: arr, W: so.W, Len: n, MaxLen: so.MaxLen, Name: name})
}

func (e *Engine) indexAddr(st *State, f *Frame, x *ssa.IndexAddr) Value {
	idx := e.val(st, f, x.Index).(*Term)
	iw, _ := intInfo(x.Index.Type())
	_ = iw
	idx64 := SExt(64, idx)
	switch b := e.val(st, f, x.X).(type) {
	case SliceV:
		e.require(st, Cmp("bvult", idx64, b.Len), "index", "index out of range", x)
		return PtrV{Obj: b.Obj, Path: []PElem{{Idx: BinBV("bvadd", b.Off, idx64)}}}
	case PtrV: // *array
		e.require(st, BoolC(b.Obj != 0), "nil", "index of nil array pointer", x)
		if len(b.Path) == 0 {
			o := e.obj(st, b.Obj)
			e.require(st, Cmp("bvult", idx64, o.Len), "index", "index out of range", x)
			return PtrV{Obj: b.Obj, Path: []PElem{{Idx: idx64}}}
		}
		at := deref(x.X.Type()).Underlying().(*types.Array)
		e.require(st, Cmp("bvult", idx64, c64(uint64(at.Len()))), "index", "index out of range", x)
		return PtrV{Obj: b.Obj, Path: append(append([]PElem(nil), b.Path...), PElem{Idx: idx64})}
	}
	panic("indexAddr on unsupported base")
}

func (e *Engine) index(st *State, f *Frame, x *ssa.Index) Value {
	idx := SExt(64, e.val(st, f, x.Index).(*Term))
	switch b := e.val(st, f, x.X).(type) {
	case StringV:
		e.require(st, Cmp("bvult", idx, b.Len), "index", "string index out of range", x)
		o := e.obj(st, b.Obj)
		at := BinBV("bvadd", b.Off, idx)
		if o.Const != nil && !at.IsConst() {
			return tableMux(o.Const, at)
		}
		return o.Arr.Read(at)
	case ArrayV:
		if !idx.IsConst() {
			panic("symbolic index into array value")
		}
		return b.Elems[idx.C]
	}
	panic("index on unsupported base")
}

func (e *Engine) slice(st *State, f *Frame, x *ssa.Slice) Value {
	get := func(v ssa.Value) *Term {
		if v == nil {
			return nil
		}
		return SExt(64, e.val(st, f, v).(*Term))
	}
	lo, hi, mx := get(x.Low), get(x.High), get(x.Max)
	if lo == nil {
		lo = c64(0)
	}
	switch b := e.val(st, f, x.X).(type) {
	case SliceV:
		if hi == nil {
			hi = b.Len
		}
		capv := b.Cap
		if mx != nil {
			e.require(st, And(Cmp("bvule", hi, mx), Cmp("bvule", mx, b.Cap)), "slice", "slice bounds out of range (max)", x)
			capv = mx
		}
		e.require(st, And(Cmp("bvule", lo, hi), Cmp("bvule", hi, capv)), "slice", "slice bounds out of range", x)
		if b.Obj == 0 {
			return b
		}
		return SliceV{Obj: b.Obj, Off: BinBV("bvadd", b.Off, lo), Len: BinBV("bvsub", hi, lo), Cap: BinBV("bvsub", capv, lo)}
	case StringV:
		if hi == nil {
			hi = b.Len
		}
		e.require(st, And(Cmp("bvule", lo, hi), Cmp("bvule", hi, b.Len)), "slice", "string slice bounds out of range", x)
		return StringV{Obj: b.Obj, Off: BinBV("bvadd", b.Off, lo), Len: BinBV("bvsub", hi, lo)}
	case PtrV: // *array
		e.require(st, BoolC(b.Obj != 0), "nil", "slice of nil array pointer", x)
		o := e.obj(st, b.Obj)
		if len(b.Path) != 0 {
			panic("slice of nested array unsupported")
		}
		if hi == nil {
			hi = o.Len
		}
		capv := o.Len
		if mx != nil {
			capv = mx
		}
		e.require(st, And(Cmp("bvule", lo, hi), Cmp("bvule", hi, capv), Cmp("bvule", capv, o.Len)), "slice", "slice bounds out of range", x)
		return SliceV{Obj: b.Obj, Off: lo, Len: BinBV("bvsub", hi, lo), Cap: BinBV("bvsub", capv, lo)}
	}
	panic("slice on unsupported base")
}

const maxAlloc = 1 << 40

func (e *Engine) makeSlice(st *State, f *Frame, x *ssa.MakeSlice) Value {
	ln := SExt(64, e.val(st, f, x.Len).(*Term))
	cp := SExt(64, e.val(st, f, x.Cap).(*Term))
	e.require(st, And(Cmp("bvsle", c64(0), ln), Cmp("bvsle", ln, cp), Cmp("bvsle", cp, c64(maxAlloc))), "makeslice", "makeslice: len/cap out of range", x)
	if st.allocLimit != nil && !cp.IsConst() {
		e.require(st, Cmp("bvule", cp, st.allocLimit), "alloc", "allocation out of proportion to input", x)
	}
	return e.newSlice(st, x.Type().Underlying().(*types.Slice).Elem(), ln, cp, "make")
}

func (e *Engine) newSlice(st *State, elem types.Type, ln, cp *Term, name string) SliceV {
	if w, ok := scalarWidth(elem); ok {
		max := 1 << 20
		if cp.IsConst() {
			max = int(cp.C)
		}
		id := e.newObj(st, &Obj{Kind: OArr, Typ: elem, Arr: MemZero(w), W: w, Len: cp, MaxLen: max, Name: name})
		return SliceV{Obj: id, Off: c64(0), Len: ln, Cap: cp}
	}
	if !cp.IsConst() {
		panic("symbolic capacity for non-scalar slice unsupported")
	}
	vec := make([]Value, cp.C)
	for i := range vec {
		vec[i] = zero(elem)
	}
	id := e.newObj(st, &Obj{Kind: OVec, Typ: elem, Vec: vec, Len: cp, MaxLen: int(cp.C), Name: name})
	return SliceV{Obj: id, Off: c64(0), Len: ln, Cap: cp}
}

func (e *Engine) typeAssert(st *State, f *Frame, x *ssa.TypeAssert) Value {
	iv := e.val(st, f, x.X).(IfaceV)
	ok := false
	var res Value = zero(x.AssertedType)
	if iv.T != nil {
		if prof := e.profileOf(iv.T); prof != nil {
			it, isIface := x.AssertedType.Underlying().(*types.Interface)
			okT := False()
			if isIface {
				okT = e.implBit(st, prof, it, types.TypeString(x.AssertedType, nil))
			}
			if x.CommaOk {
				if isIface {
					return TupleV{iv, okT}
				}
				return TupleV{zero(x.AssertedType), okT}
			}
			e.require(st, okT, "typeassert", "interface conversion failed: "+types.TypeString(x.AssertedType, nil), x)
			if isIface {
				return iv
			}
			return zero(x.AssertedType)
		}
		if it, isIface := x.AssertedType.Underlying().(*types.Interface); isIface {
			ok = e.implements(iv.T, it)
			if ok {
				res = iv
			}
		} else {
			ok = types.Identical(iv.T, x.AssertedType)
			if ok {
				res = iv.V
			}
		}
	}
	if x.CommaOk {
		return TupleV{res, BoolC(ok)}
	}
	e.require(st, BoolC(ok), "typeassert", "interface conversion failed", x)
	return res
}

func (e *Engine) implements(t types.Type, it *types.Interface) bool {
	if n, ok := t.(*types.Pointer); ok {
		if nn, ok := n.Elem().(*types.Named); ok && nn == e.errType {
			// synthetic error type implements exactly `error`
			return it.NumMethods() == 1 && it.Method(0).Name() == "Error"
		}
	}
	return types.Implements(t, it)
}

func (e *Engine) mapUpdate(st *State, m MapV, k, v Value, where ssa.Instruction) {
	e.require(st, BoolC(m.Obj != 0), "nilmap", "assignment to entry in nil map", where)
	o := e.mutObj(st, m.Obj)
	for i, en := range o.Ents {
		c := e.keyEqTerm(st, en.K, k)
		if c.IsTrue() {
			o.Ents[i].V = v
			return
		}
		if c.IsFalse() {
			continue
		}
		// symbolic key: fork a state in which k equals entry i (overwrite) and continue with "differs"
		if r, mdl := e.check(append(append([]*Term(nil), st.pc...), c)); r != RUnsat {
			alt := st.clone()
			ao := e.mutObj(alt, m.Obj)
			ao.Ents[i].V = v
			alt.pc = append(alt.pc, c)
			alt.model = mdl
			e.extraForks = append(e.extraForks, alt)
			e.Forks++
		}
		e.extendPC(st, Not(c))
	}
	o.Ents = append(o.Ents, MapEntry{k, v})
}

// keyEqTerm is symbolic equality of two map keys (integers, bools, strings).
func (e *Engine) keyEqTerm(st *State, a, b Value) *Term {
	switch av := a.(type) {
	case *Term:
		return Eq(av, b.(*Term))
	case StringV:
		return e.stringEq(st, av, b.(StringV))
	}
	panic(fmt.Sprintf("map key type %T unsupported", a))
}

func (e *Engine) keyEq(a, b Value) bool {
	switch av := a.(type) {
	case *Term:
		bt := b.(*Term)
		if av.IsConst() && bt.IsConst() {
			return av.C == bt.C
		}
		if av == bt {
			return true
		}
		panic("symbolic map key comparison in Lookup unsupported in prototype")
	}
	panic(fmt.Sprintf("map key type %T unsupported", a))
}

func (e *Engine) lookup(st *State, f *Frame, x *ssa.Lookup) Value {
	if sv, isStr := e.val(st, f, x.X).(StringV); isStr { // s[i] on a string operand
		idx := SExt(64, e.val(st, f, x.Index).(*Term))
		e.require(st, Cmp("bvult", idx, sv.Len), "index", "string index out of range", x)
		so := e.obj(st, sv.Obj)
		at := BinBV("bvadd", sv.Off, idx)
		if so.Const != nil && !at.IsConst() {
			return tableMux(so.Const, at)
		}
		return so.Arr.Read(at)
	}
	m := e.val(st, f, x.X).(MapV)
	k := e.val(st, f, x.Index)
	vt := x.X.Type().Underlying().(*types.Map).Elem()
	result := func(v Value, found bool) Value {
		if x.CommaOk {
			return TupleV{v, BoolC(found)}
		}
		return v
	}
	if m.Obj != 0 {
		for _, en := range e.obj(st, m.Obj).Ents {
			c := e.keyEqTerm(st, en.K, k)
			if c.IsTrue() {
				return result(en.V, true)
			}
			if c.IsFalse() {
				continue
			}
			// symbolic key: fork a state in which the key equals this entry's key
			if r, mdl := e.check(append(append([]*Term(nil), st.pc...), c)); r != RUnsat {
				alt := st.clone()
				af := alt.frames[len(alt.frames)-1]
				af.env[x] = result(en.V, true)
				alt.pc = append(alt.pc, c)
				alt.model = mdl
				e.extraForks = append(e.extraForks, alt)
				e.Forks++
			}
			e.extendPC(st, Not(c))
		}
	}
	return result(zero(vt), false)
}

// ---- calls ----

func (e *Engine) call(st *State, f *Frame, x *ssa.Call) {
	c := x.Common()
	args := make([]Value, 0, len(c.Args)+1)
	if c.IsInvoke() {
		recv := e.val(st, f, c.Value).(IfaceV)
		e.require(st, BoolC(recv.T != nil), "nil", "method call on nil interface", x)
		if prof := e.profileOf(recv.T); recv.T != nil && prof != nil {
			e.logCall(st, fmt.Sprintf("invoke %s.%s", prof.Name, c.Method.Name()))
			e.freshResults(st, x, c.Signature(), prof.Name+"."+c.Method.Name())
			return
		}
		if e.intrinsicMethod(st, f, x, recv, c.Method.Name()) {
			return
		}
		fn := e.prog.LookupMethod(recv.T, c.Method.Pkg(), c.Method.Name())
		if fn == nil {
			panic(fmt.Sprintf("no method %s on %v", c.Method.Name(), recv.T))
		}
		args = append(args, recv.V)
		for _, a := range c.Args {
			args = append(args, e.val(st, f, a))
		}
		e.invoke(st, f, x, fn, args, nil)
		return
	}
	for _, a := range c.Args {
		args = append(args, e.val(st, f, a))
	}
	switch fv := c.Value.(type) {
	case *ssa.Builtin:
		f.env[x] = e.builtin(st, f, x, fv.Name(), args)
		return
	case *ssa.Function:
		e.invoke(st, f, x, fv, args, nil)
		return
	}
	fv := e.val(st, f, c.Value).(FuncV)
	if fv.Blt != nil {
		f.env[x] = e.builtin(st, f, x, fv.Blt.Name(), args)
		return
	}
	e.require(st, BoolC(fv.Fn != nil), "nil", "call of nil func", x)
	e.invoke(st, f, x, fv.Fn, args, fv.Bind)
}

func (e *Engine) invoke(st *State, f *Frame, x *ssa.Call, fn *ssa.Function, args, bind []Value) {
	name := fn.String()
	if fn.Name() == "Reset" && fn.Signature.Recv() != nil && len(args) == 1 && e.resetStub {
		if p, ok := args[0].(PtrV); ok && p.Obj != 0 {
			if pt, ok := fn.Signature.Recv().Type().Underlying().(*types.Pointer); ok {
				if _, isStruct := pt.Elem().Underlying().(*types.Struct); isStruct {
					e.store(st, p, zero(pt.Elem()))
					f.env[x] = nil
					return
				}
			}
		}
	}
	switch name {
	case "(*sync.Pool).Get":
		p := args[0].(PtrV)
		if items := st.pools[p.Obj]; len(items) > 0 && st.poolPolicy != 1 {
			if st.poolPolicy == 2 { // fork: a state in which the pool was emptied (GC) and New() runs
				alt := st.clone()
				alt.poolPolicy = 3 // 3: act as "fresh" for this one re-executed Get, then back to fork
				af := alt.frames[len(alt.frames)-1]
				af.ip--
				e.extraForks = append(e.extraForks, alt)
				e.Forks++
			}
			f.env[x] = items[len(items)-1]
			st.pools[p.Obj] = items[:len(items)-1]
			return
		}
		if st.poolPolicy == 3 {
			st.poolPolicy = 2
		}
		// field New is the last field of sync.Pool
		pt := deref(fn.Params[0].Type()).Underlying().(*types.Struct)
		newIdx := -1
		for i := 0; i < pt.NumFields(); i++ {
			if pt.Field(i).Name() == "New" {
				newIdx = i
			}
		}
		nf := e.load(st, PtrV{Obj: p.Obj, Path: append(append([]PElem(nil), p.Path...), PElem{Field: newIdx})}, nil).(FuncV)
		if nf.Fn == nil {
			f.env[x] = IfaceV{}
			return
		}
		e.pushFrame(st, nf.Fn, nil, nf.Bind, x)
		return
	case "(*sync.Pool).Put":
		p := args[0].(PtrV)
		st.pools[p.Obj] = append(st.pools[p.Obj], args[1])
		f.env[x] = nil
		return
	}
	if res, ok := e.intrinsic(st, f, x, fn, name, args); ok {
		f.env[x] = res
		return
	}
	if fn.Blocks == nil {
		panic(fmt.Sprintf("call to function without body: %s", name))
	}
	if (e.mergeFns[name] || e.smallPureLeaf(fn, args)) && e.mergeCall(st, f, x, fn, args) {
		return
	}
	if len(st.frames) > 200 {
		panic("call depth exceeded")
	}
	e.pushFrame(st, fn, args, bind, x)
}

func (e *Engine) builtin(st *State, f *Frame, x *ssa.Call, name string, args []Value) Value {
	switch name {
	case "len":
		switch a := args[0].(type) {
		case SliceV:
			return a.Len
		case StringV:
			return a.Len
		case MapV:
			if a.Obj == 0 {
				return c64(0)
			}
			return c64(uint64(len(e.obj(st, a.Obj).Ents)))
		}
	case "cap":
		return args[0].(SliceV).Cap
	case "copy":
		dst := args[0].(SliceV)
		var sobj int
		var soff, slen *Term
		switch s := args[1].(type) {
		case SliceV:
			sobj, soff, slen = s.Obj, s.Off, s.Len
		case StringV:
			sobj, soff, slen = s.Obj, s.Off, s.Len
		}
		n := Ite(Cmp("bvult", dst.Len, slen), dst.Len, slen)
		if dst.Obj != 0 && sobj != 0 {
			e.copyRange(st, dst.Obj, dst.Off, sobj, soff, n)
		}
		return n
	case "append":
		return e.appendSlice(st, x, args[0].(SliceV), args[1])
	case "SliceData":
		a := args[0].(SliceV)
		if a.Obj == 0 {
			return PtrV{}
		}
		return PtrV{Obj: a.Obj, Path: []PElem{{Idx: a.Off}}}
	case "StringData":
		a := args[0].(StringV)
		if a.Obj == 0 {
			return PtrV{}
		}
		return PtrV{Obj: a.Obj, Path: []PElem{{Idx: a.Off}}}
	case "String":
		p := args[0].(PtrV)
		n := SExt(64, args[1].(*Term))
		if p.Obj == 0 {
			return StringV{Off: c64(0), Len: c64(0)}
		}
		return StringV{Obj: p.Obj, Off: p.Path[0].Idx, Len: n}
	case "recover":
		return IfaceV{} // a panic ends the path as a failed obligation, so no panic is ever in flight here
	case "clear":
		switch a := args[0].(type) {
		case SliceV:
			if a.Obj == 0 {
				return nil
			}
			o := e.mutObj(st, a.Obj)
			if o.Kind == OArr {
				o.Arr = MemCopy(o.Arr, a.Off, MemZero(o.W), c64(0), a.Len)
				return nil
			}
			if !a.Off.IsConst() || !a.Len.IsConst() {
				panic("clear of non-scalar slice with symbolic bounds unsupported")
			}
			for i := a.Off.C; i < a.Off.C+a.Len.C; i++ {
				o.Vec[i] = zero(o.Typ)
			}
			return nil
		case MapV:
			if a.Obj != 0 {
				e.mutObj(st, a.Obj).Ents = nil
			}
			return nil
		}
	case "min", "max":
		a, b := args[0].(*Term), args[1].(*Term)
		_, signed := intInfo(x.Type())
		lt := "bvult"
		if signed {
			lt = "bvslt"
		}
		c := Cmp(lt, a, b)
		if name == "min" {
			return Ite(c, a, b)
		}
		return Ite(c, b, a)
	}
	panic("builtin " + name + " unsupported")
}

// copyRange performs dst[doff+i] = src[soff+i] for i<n using a bounded pointwise update.
func (e *Engine) copyRange(st *State, dobj int, doff *Term, sobj int, soff, n *Term) {
	so := e.obj(st, sobj)
	do := e.mutObj(st, dobj)
	if so.Kind != OArr || do.Kind != OArr {
		// vector copy with concrete extents
		if !n.IsConst() || !doff.IsConst() || !soff.IsConst() {
			panic("symbolic copy of non-scalar slices unsupported")
		}
		for i := uint64(0); i < n.C; i++ {
			do.Vec[doff.C+i] = so.Vec[soff.C+i]
		}
		return
	}
	do.Arr = MemCopy(do.Arr, doff, so.Arr, soff, n)
}

func (e *Engine) appendSlice(st *State, x *ssa.Call, s SliceV, more Value) Value {
	var mobj int
	var moff, mlen *Term
	switch m := more.(type) {
	case SliceV:
		mobj, moff, mlen = m.Obj, m.Off, m.Len
	case StringV:
		mobj, moff, mlen = m.Obj, m.Off, m.Len
	}
	elem := x.Type().Underlying().(*types.Slice).Elem()
	newLen := BinBV("bvadd", s.Len, mlen)
	fits := Cmp("bvule", newLen, s.Cap)
	if !fits.IsBoolConst() {
		// decide with the solver; prototype: require a definite answer
		rt, rf := e.feasible(st, fits), e.feasible(st, Not(fits))
		switch {
		case rt != RUnsat && rf == RUnsat:
			fits = True()
		case rf != RUnsat && rt == RUnsat:
			fits = False()
		default:
			// grow path only (sound for content, not for aliasing) -- prototype simplification
			fits = False()
		}
	}
	if fits.IsTrue() && s.Obj != 0 {
		if mobj != 0 {
			e.copyRange(st, s.Obj, BinBV("bvadd", s.Off, s.Len), mobj, moff, mlen)
		}
		return SliceV{Obj: s.Obj, Off: s.Off, Len: newLen, Cap: s.Cap}
	}
	ns := e.newSlice(st, elem, newLen, newLen, "append")
	if s.Obj != 0 {
		e.copyRange(st, ns.Obj, c64(0), s.Obj, s.Off, s.Len)
	}
	if mobj != 0 {
		e.copyRange(st, ns.Obj, s.Len, mobj, moff, mlen)
	}
	return ns
}

// ---- intrinsics ----

func (e *Engine) strConst(st *State, v Value) string {
	s := v.(StringV)
	if s.Obj == 0 {
		return ""
	}
	o := e.obj(st, s.Obj)
	var sb strings.Builder
	for i := uint64(0); i < s.Len.C; i++ {
		sb.WriteByte(byte(o.Arr.Read(c64(s.Off.C+i)).C))
	}
	return sb.String()
}

func (e *Engine) freshInput(name string, w int) *Term {
	t := Var("in_"+sanitize(name), BV(w))
	e.addInput(t)
	return t
}

func sanitize(s string) string {
	return strings.Map(func(r rune) rune {
		if r >= 'a' && r <= 'z' || r >= 'A' && r <= 'Z' || r >= '0' && r <= '9' || r == '_' {
			return r
		}
		return '_'
	}, s)
}

func (e *Engine) intrinsic(st *State, f *Frame, x *ssa.Call, fn *ssa.Function, name string, args []Value) (Value, bool) {
	short := fn.Name()
	if fn.Pkg != nil && e.targets[fn.Pkg.Pkg.Path()] && fn.Blocks != nil {
		switch {
		case strings.HasPrefix(short, "nondet") || strings.HasPrefix(short, "verif"):
			// fallthrough to harness intrinsics below
		default:
			return nil, false
		}
	}
	switch short {
	case "nondetU64", "nondetInt", "nondetI64":
		return e.freshInput(e.strConst(st, args[0]), 64), true
	case "nondetU32", "nondetI32":
		return e.freshInput(e.strConst(st, args[0]), 32), true
	case "nondetU8":
		return e.freshInput(e.strConst(st, args[0]), 8), true
	case "nondetU64N", "nondetIntN", "nondetI64N":
		return e.freshInput(fmt.Sprintf("%s_%d", e.strConst(st, args[0]), concreteInt(args[1])), 64), true
	case "nondetU32N", "nondetI32N":
		return e.freshInput(fmt.Sprintf("%s_%d", e.strConst(st, args[0]), concreteInt(args[1])), 32), true
	case "nondetU8N":
		return e.freshInput(fmt.Sprintf("%s_%d", e.strConst(st, args[0]), concreteInt(args[1])), 8), true
	case "nondetBoolN":
		t := Var(fmt.Sprintf("in_%s_%d", sanitize(e.strConst(st, args[0])), concreteInt(args[1])), BoolSort)
		e.addInput(t)
		return t, true
	case "nondetBool":
		t := Var("in_"+sanitize(e.strConst(st, args[0])), BoolSort)
		e.addInput(t)
		return t, true
	case "nondetBytesN":
		return e.nondetBytes(st, fmt.Sprintf("%s_%d", e.strConst(st, args[0]), concreteInt(args[1])), int(concreteInt(args[2]))), true
	case "nondetBytes":
		return e.nondetBytes(st, e.strConst(st, args[0]), int(concreteInt(args[1]))), true
	case "nondetMsg":
		return IfaceV{T: e.newProfile(e.strConst(st, args[0])).Named}, true
	case "verifConcretize":
		t := args[0].(*Term)
		if t.IsConst() {
			return t, true
		}
		e.flush(st)
		var vals []uint64
		block := []*Term{}
		for len(vals) <= 512 {
			r, m := e.check(append(append(append([]*Term(nil), st.pc...), block...)))
			if r != RSat {
				break
			}
			v := m.Eval(t)
			vals = append(vals, v)
			block = append(block, Not(Eq(t, Const(t.S.W, v))))
		}
		if len(vals) > 512 {
			panic("verifConcretize: more than 512 feasible values")
		}
		if len(vals) == 0 {
			panic(pathEnd{"concretize: infeasible"})
		}
		// fork: current state takes vals[0], clones take the rest
		for _, v := range vals[1:] {
			o := st.clone()
			of := o.frames[len(o.frames)-1]
			of.env[x] = Const(t.S.W, v)
			o.pc = append(o.pc, Eq(t, Const(t.S.W, v)))
			o.model = nil
			e.extraForks = append(e.extraForks, o)
		}
		e.Forks += len(vals) - 1
		st.pc = append(st.pc, Eq(t, Const(t.S.W, vals[0])))
		st.model = nil
		return Const(t.S.W, vals[0]), true
	case "verifAssume":
		e.noteAssume(x)
		e.assume(st, args[0].(*Term))
		return nil, true
	case "verifTier":
		return c64(uint64(e.Tier)), true
	case "verifObserve":
		st.observe = append(st.observe, obsRec{e.strConst(st, args[0]), args[1].(*Term)})
		return nil, true
	case "verifAllocLimit":
		st.allocLimit = args[0].(*Term)
		return nil, true
	case "verifAssert":
		e.require(st, args[0].(*Term), "assert", e.strConst(st, args[1]), x)
		return nil, true
	case "verifAssert2":
		e.require(st, And(args[0].(*Term), args[1].(*Term)), "assert", e.strConst(st, args[2]), x)
		return nil, true
	case "verifAssert3":
		e.require(st, And(args[0].(*Term), args[1].(*Term), args[2].(*Term)), "assert", e.strConst(st, args[3]), x)
		return nil, true
	case "nondetBytesLen":
		nm := sanitize(e.strConst(st, args[0]))
		n := int(concreteInt(args[1]))
		arr := Var("in_"+nm, Arr(8))
		e.addInputArr(inputArr{nm, arr, c64(uint64(n)), n})
		id := e.newObj(st, &Obj{Kind: OArr, Typ: types.Typ[types.Uint8], Arr: MemBase(arr, 8), W: 8, Len: c64(uint64(n)), MaxLen: n, Name: nm, Tag: "input:" + nm})
		return SliceV{Obj: id, Off: c64(0), Len: c64(uint64(n)), Cap: c64(uint64(n))}, true
	case "verifReach":
		e.Reached[e.strConst(st, args[0])]++
		st.reached = append(st.reached, e.strConst(st, args[0]))
		return nil, true
	case "verifB2U":
		return Ite(args[0].(*Term), c64(1), c64(0)), true
	case "verifAssertDecodesLikeRef", "verifAssertAgreesIfRefAccepts":
		return nil, true
	case "verifNoAliasString", "verifNoAliasBytes":
		// true iff the value is empty or does not share the buffer's backing object
		buf := args[1].(SliceV)
		var obj int
		var ln *Term
		switch v := args[0].(type) {
		case StringV:
			obj, ln = v.Obj, v.Len
		case SliceV:
			obj, ln = v.Obj, v.Len
		}
		if buf.Obj == 0 || obj != buf.Obj {
			return True(), true
		}
		return Eq(ln, c64(0)), true
	case "verifAssertNoAlias":
		// every string / []byte reachable from the message that shares the input's backing object must be
		// empty (a zero-length alias is unobservable); the witness then has a non-empty aliasing value
		in := args[1].(SliceV)
		cond := True()
		if in.Obj != 0 {
			var lens []*Term
			e.collectRefs(st, args[0], in.Obj, map[int]bool{}, &lens)
			for _, l := range lens {
				cond = And(cond, Eq(l, c64(0)))
			}
		}
		e.require(st, cond, "assert", e.strConst(st, args[2]), x)
		return nil, true
	case "verifAssertCanonical":
		args = args[1:]
		fallthrough
	case "verifAssertBytesEq":
		a, b := args[0].(SliceV), args[1].(SliceV)
		e.skolem++
		k := Var(fmt.Sprintf("sk_%d", e.skolem), BV(64))
		cond := Eq(a.Len, b.Len)
		if a.Obj != 0 && b.Obj != 0 {
			ao, bo := e.obj(st, a.Obj), e.obj(st, b.Obj)
			cond = And(cond, Implies(Cmp("bvult", k, a.Len), Eq(ao.Arr.Read(BinBV("bvadd", a.Off, k)), bo.Arr.Read(BinBV("bvadd", b.Off, k)))))
		}
		e.require(st, cond, "assert", e.strConst(st, args[2]), x)
		return nil, true
	case "verifSameObject":
		a, b := args[0].(SliceV), args[1].(SliceV)
		return BoolC(a.Obj != 0 && a.Obj == b.Obj), true
	case "verifCalled":
		want := "call " + e.strConst(st, args[0])
		for _, l := range st.log {
			if l == want {
				return True(), true
			}
		}
		return False(), true
	case "verifPrintCount":
		return c64(uint64(len(st.sprintfs))), true
	case "verifPrintReset":
		st.sprintfs = nil
		return nil, true
	case "verifPrintIs":
		i := int(concreteInt(args[0]))
		return BoolC(i < len(st.sprintfs) && st.sprintfs[i].format == e.strConst(st, args[1])), true
	case "verifPrintInt":
		i, j := int(concreteInt(args[0])), int(concreteInt(args[1]))
		if i >= len(st.sprintfs) || j >= len(st.sprintfs[i].args) {
			return c64(0xdeadbeefdeadbeef), true
		}
		v := st.sprintfs[i].args[j]
		if iv, ok := v.(IfaceV); ok {
			v = iv.V
			if t, ok := v.(*Term); ok {
				if t.S.K == SBool {
					return Ite(t, c64(1), c64(0)), true
				}
				signed := false
				if b, ok := iv.T.Underlying().(*types.Basic); ok && b.Info()&types.IsUnsigned == 0 {
					signed = true
				}
				if signed {
					return SExt(64, t), true
				}
				return ZExt(64, t), true
			}
			if sv, ok := v.(StringV); ok {
				return sv.Len, true
			}
		}
		panic("verifPrintInt: argument is not an integer or string")
	case "verifStubFailed":
		want := e.strConst(st, args[0])
		for i := len(st.stubs) - 1; i >= 0; i-- {
			if st.stubs[i].name == want {
				return BoolC(st.stubs[i].failed), true
			}
		}
		return False(), true
	case "verifStubBool", "verifStubStrLen":
		want, field := e.strConst(st, args[0]), e.strConst(st, args[1])
		for i := len(st.stubs) - 1; i >= 0; i-- {
			if st.stubs[i].name != want {
				continue
			}
			v := e.stubField(st, fn, st.stubs[i], field)
			if short == "verifStubStrLen" {
				return v.(StringV).Len, true
			}
			return v, true
		}
		panic("verifStub*: the stub " + want + " was not called on this path")
	case "verifCalledPrefix":
		want := "call " + e.strConst(st, args[0])
		for _, l := range st.log {
			if strings.HasPrefix(l, want) {
				return True(), true
			}
		}
		return False(), true
	case "verifNote":
		return nil, true
	case "verifNative":
		return False(), true
	case "verifPoolPolicy":
		st.poolPolicy = int(concreteInt(args[0]))
		return nil, true
	case "verifShareRoot":
		st.shared = map[int]bool{}
		st.sharing = true
		e.markReachable(st, args[0], st.shared)
		for _, id := range st.globals {
			e.markReachable(st, PtrV{Obj: id}, st.shared)
		}
		return nil, true
	case "verifImplies":
		return Implies(args[0].(*Term), args[1].(*Term)), true
	case "verifOr":
		return Or(args[0].(*Term), args[1].(*Term)), true
	case "verifAnd":
		return And(args[0].(*Term), args[1].(*Term)), true
	case "verifMerge":
		e.mergeFns[e.strConst(st, args[0])] = true
		return nil, true
	case "verifSnapshot":
		b := args[0].(SliceV)
		if b.Obj != 0 {
			if e.snaps == nil {
				e.snaps = map[int]*Mem{}
			}
			st.snaps = append(st.snaps, snapRec{b.Obj, e.obj(st, b.Obj).Arr})
		}
		return nil, true
	case "verifUnchanged":
		b := args[0].(SliceV)
		if b.Obj == 0 {
			return True(), true
		}
		for _, sr := range st.snaps {
			if sr.obj == b.Obj {
				return BoolC(e.obj(st, b.Obj).Arr == sr.mem), true
			}
		}
		return False(), true
	case "verifBytesEq":
		a, b := args[0].(SliceV), args[1].(SliceV)
		return e.stringEq(st, StringV{Obj: a.Obj, Off: a.Off, Len: a.Len}, StringV{Obj: b.Obj, Off: b.Off, Len: b.Len}), true
	}
	if strings.HasPrefix(name, "google.golang.org/protobuf/proto.") && strings.HasSuffix(name, "Extension") {
		if r, ok := e.extModelCall(st, x, name, args); ok {
			return r, true
		}
	}
	switch name {
	case "fmt.Errorf":
		var wraps []Value
		if sl, ok := args[1].(SliceV); ok && sl.Obj != 0 {
			o := e.obj(st, sl.Obj)
			for i := uint64(0); i < sl.Len.C; i++ {
				if iv, ok := o.Vec[sl.Off.C+i].(IfaceV); ok && iv.T != nil && e.implements(iv.T, types.Universe.Lookup("error").Type().Underlying().(*types.Interface)) {
					wraps = append(wraps, iv)
				}
			}
		}
		return e.newError(st, "fmt.Errorf:"+e.strConst(st, args[0]), wraps), true
	case "reflect.TypeOf":
		iv := args[0].(IfaceV)
		if iv.T == nil {
			return IfaceV{}, true
		}
		return IfaceV{T: e.reflectTok, V: iv}, true
	case "(*sync.Map).Load":
		mp := args[0].(PtrV)
		key := e.syncMapKey(args[1])
		for _, en := range st.syncMaps[mp.Obj] {
			if en.K.(string) == key {
				return TupleV{en.V, True()}, true
			}
		}
		return TupleV{IfaceV{}, False()}, true
	case "(*sync.Map).LoadOrStore":
		mp := args[0].(PtrV)
		key := e.syncMapKey(args[1])
		for _, en := range st.syncMaps[mp.Obj] {
			if en.K.(string) == key {
				return TupleV{en.V, True()}, true
			}
		}
		if st.syncMaps == nil {
			st.syncMaps = map[int][]MapEntry{}
		}
		st.syncMaps[mp.Obj] = append(append([]MapEntry(nil), st.syncMaps[mp.Obj]...), MapEntry{key, args[2]})
		return TupleV{args[2], False()}, true
	case "(*sync.Map).Store":
		mp := args[0].(PtrV)
		if st.sharing && st.shared[mp.Obj] {
			// a sync.Map is safe for concurrent use: not an ownership violation
		}
		key := e.syncMapKey(args[1])
		ents := append([]MapEntry(nil), st.syncMaps[mp.Obj]...)
		replaced := false
		for i := range ents {
			if ents[i].K.(string) == key {
				if !e.sameValue(ents[i].V, args[2]) {
					// a published cache entry changes its value: a goroutine that read the earlier one saw something else
					e.cacheRewrite(st, x, key)
				}
				ents[i].V = args[2]
				replaced = true
			}
		}
		if !replaced {
			ents = append(ents, MapEntry{key, args[2]})
		}
		if st.syncMaps == nil {
			st.syncMaps = map[int][]MapEntry{}
		}
		st.syncMaps[mp.Obj] = ents
		return nil, true
	case "github.com/gogo/protobuf/proto.MessageName":
		// contract: the registered name of a message type generated by (and registered with) gogo, else ""
		if iv, ok := args[0].(IfaceV); ok && iv.T != nil && strings.Contains(types.TypeString(iv.T, nil), "github.com/gogo/protobuf/") {
			return e.constString("gogo.registered.Name"), true
		}
		return e.constString(""), true
	case "fmt.Sprintf":
		rec := sprintfRec{format: e.strConst(st, args[0])}
		if sl, ok := args[1].(SliceV); ok && sl.Obj != 0 {
			o := e.obj(st, sl.Obj)
			for i := uint64(0); i < sl.Len.C; i++ {
				rec.args = append(rec.args, o.Vec[sl.Off.C+i])
			}
		}
		st.sprintfs = append(st.sprintfs, rec)
		return e.constString("<sprintf>"), true
	case "(*strings.Builder).WriteString":
		return TupleV{args[1].(StringV).Len, IfaceV{}}, true
	case "(*strings.Builder).WriteRune":
		return TupleV{c64(1), IfaceV{}}, true
	case "(*strings.Builder).WriteByte":
		return IfaceV{}, true
	case "(*strings.Builder).Grow", "(*strings.Builder).Reset":
		return nil, true
	case "(*strings.Builder).Len":
		return c64(0), true
	case "(*strings.Builder).String":
		return e.constString("<strings.Builder>"), true
	case "reflect.ValueOf":
		iv := args[0].(IfaceV)
		return StructV{Fields: []Value{iv}}, true
	case "(reflect.Value).Kind":
		iv := args[0].(StructV).Fields[0].(IfaceV)
		if iv.T == nil {
			return c64(0), true
		}
		return c64(reflectKind(iv.T)), true
	case "(reflect.Value).IsValid":
		return BoolC(args[0].(StructV).Fields[0].(IfaceV).T != nil), true
	case "(reflect.Value).IsNil":
		iv := args[0].(StructV).Fields[0].(IfaceV)
		if iv.T == nil {
			e.require(st, False(), "panic", "reflect: call of reflect.Value.IsNil on zero Value", x)
		}
		switch v := iv.V.(type) {
		case PtrV:
			return BoolC(v.Obj == 0), true
		case SliceV:
			return BoolC(v.Obj == 0), true
		case MapV:
			return BoolC(v.Obj == 0), true
		case IfaceV:
			return BoolC(v.T == nil), true
		case FuncV:
			return BoolC(v.Fn == nil && v.Blt == nil), true
		}
		e.require(st, False(), "panic", "reflect: call of reflect.Value.IsNil on a non-nilable kind", x)
		return False(), true
	case "strings.Count", "strings.Index", "strings.IndexByte":
		if r, ok := e.stringsScan(st, f, x, name, args); ok {
			return r, true
		}
	case "strings.Map":
		if r, ok := e.stringsMap(st, f, x, args); ok {
			return r, true
		}
	case "unicode.IsSpace":
		// Latin-1 table of unicode.IsSpace, valid for the byte-valued runes the harnesses use
		r := args[0].(*Term)
		in := func(v uint64) *Term { return Eq(r, Const(32, v)) }
		return Or(in(9), in(10), in(11), in(12), in(13), in(32), in(0x85), in(0xA0)), true
	case "errors.Is":
		return BoolC(e.errorsIs(st, args[0].(IfaceV), args[1].(IfaceV), 0)), true
	case "strings.Repeat":
		return e.constString("<strings.Repeat>"), true
	case "sort.Strings":
		return nil, true
	case "strings.Join":
		return e.constString("<strings.Join>"), true
	case "errors.New":
		return e.newError(st, "errors.New:"+e.strConst(st, args[0]), nil), true
	case "math.Float32bits", "math.Float64bits", "math.Float32frombits", "math.Float64frombits":
		return args[0], true
	case "sync/atomic.LoadInt32":
		p := args[0].(PtrV)
		e.require(st, BoolC(p.Obj != 0), "nil", "atomic load through nil", x)
		e.inAtomic = true
		v := e.load(st, p, nil)
		e.inAtomic = false
		return v, true
	case "sync/atomic.StoreInt32":
		p := args[0].(PtrV)
		e.require(st, BoolC(p.Obj != 0), "nil", "atomic store through nil", x)
		if st.sharing && st.shared[p.Obj] && st.locks == 0 {
			e.noteSharedAccess(st, p, true, true)
		}
		e.inAtomic = true
		e.store(st, p, args[1])
		e.inAtomic = false
		return nil, true
	case "(*sync.Mutex).Lock", "(*sync.RWMutex).Lock":
		st.locks++
		return nil, true
	case "(*sync.Mutex).Unlock", "(*sync.RWMutex).Unlock":
		st.locks--
		return nil, true
	case "(*sync.RWMutex).RLock", "(*sync.RWMutex).RUnlock":
		return nil, true
	}
	if fn.Pkg != nil && !e.targets[fn.Pkg.Pkg.Path()] && short == "init" {
		return nil, true
	}
	if fn.Pkg != nil {
		pp := fn.Pkg.Pkg.Path()
		if e.stubPkgs[pp] {
			e.logCall(st, "call "+name)
			st.stubs = append(st.stubs, stubRec{name: name, args: args})
			if e.fnByName == nil {
				e.fnByName = map[string]*ssa.Function{}
			}
			e.fnByName[name] = fn
			e.freshResults(st, x, fn.Signature, name)
			return f.env[x], true
		}
		if strings.HasPrefix(pp, "google.golang.org/protobuf/") && !strings.HasSuffix(pp, "/protowire") {
			// runtime internals reached from generated Reset()/ProtoReflect(): no-ops returning zero values
			res := fn.Signature.Results()
			switch res.Len() {
			case 0:
				return nil, true
			case 1:
				return zero(res.At(0).Type()), true
			default:
				return zero(res), true
			}
		}
	}
	return nil, false
}

func (e *Engine) intrinsicMethod(st *State, f *Frame, x *ssa.Call, recv IfaceV, name string) bool {
	if recv.T == e.reflectTok && name == "Kind" {
		inner := recv.V.(IfaceV)
		if prof := e.profileOf(inner.T); prof != nil {
			f.env[x] = prof.Kind
			return true
		}
		f.env[x] = c64(reflectKind(inner.T))
		return true
	}
	if recv.T == e.reflectTok && name == "Elem" {
		// reflect.Type.Elem: the type token of the element type (the token carries only a type)
		inner := recv.V.(IfaceV)
		var et types.Type
		switch u := inner.T.Underlying().(type) {
		case *types.Pointer:
			et = u.Elem()
		case *types.Slice:
			et = u.Elem()
		case *types.Array:
			et = u.Elem()
		case *types.Map:
			et = u.Elem()
		default:
			panic("reflect.Type.Elem of a type without element type (the real call panics)")
		}
		f.env[x] = IfaceV{T: e.reflectTok, V: IfaceV{T: et}}
		return true
	}
	if recv.T == e.reflectTok && name == "Implements" && len(x.Call.Args) == 1 {
		inner := recv.V.(IfaceV)
		arg, _ := e.val(st, f, x.Call.Args[0]).(IfaceV)
		if arg.T == e.reflectTok {
			if ui, ok := arg.V.(IfaceV); ok && ui.T != nil {
				if it, isIface := ui.T.Underlying().(*types.Interface); isIface && inner.T != nil && e.profileOf(inner.T) == nil {
					f.env[x] = BoolC(e.implements(inner.T, it))
					return true
				}
			}
		}
	}
	return false
}

// reflectKind is reflect.Kind of a static type
func reflectKind(t types.Type) uint64 {
	switch u := t.Underlying().(type) {
	case *types.Basic:
		switch u.Kind() {
		case types.Bool:
			return 1
		case types.Int:
			return 2
		case types.Int8:
			return 3
		case types.Int16:
			return 4
		case types.Int32:
			return 5
		case types.Int64:
			return 6
		case types.Uint:
			return 7
		case types.Uint8:
			return 8
		case types.Uint16:
			return 9
		case types.Uint32:
			return 10
		case types.Uint64:
			return 11
		case types.Uintptr:
			return 12
		case types.Float32:
			return 13
		case types.Float64:
			return 14
		case types.String:
			return 24
		case types.UnsafePointer:
			return 26
		}
	case *types.Array:
		return 17
	case *types.Chan:
		return 18
	case *types.Signature:
		return 19
	case *types.Interface:
		return 20
	case *types.Map:
		return 21
	case *types.Pointer:
		return 22
	case *types.Slice:
		return 23
	case *types.Struct:
		return 25
	}
	return 0
}

func (e *Engine) syncMapKey(v Value) string {
	iv, ok := v.(IfaceV)
	if !ok || iv.T == nil {
		return "nil"
	}
	if iv.T == e.reflectTok {
		if inner, ok := iv.V.(IfaceV); ok && inner.T != nil {
			return "type:" + types.TypeString(inner.T, nil)
		}
		return "type:nil"
	}
	return fmt.Sprintf("val:%s:%v", types.TypeString(iv.T, nil), iv.V)
}

// ---- reporting ----

func (e *Engine) Report() {
	fmt.Printf("paths=%d steps=%d forks=%d unwound=%d obligations=%d in %d batches; queries=%d (sat=%d unsat=%d unknown=%d) solver=%.2fs\n",
		e.Paths, e.Steps, e.Forks, e.Unwound, e.Discharged, e.ObQueries, e.solver.Queries, e.solver.Sat, e.solver.Unsat, e.solver.Unknown, e.solver.Time.Seconds())
	fmt.Printf("cache: core hits=%d pool hits=%d merged calls=%d\n", e.CoreHits, e.PoolHits, e.Merged)
	var rk []string
	for k, v := range e.Reached {
		rk = append(rk, fmt.Sprintf("%s:%d", k, v))
	}
	sort.Strings(rk)
	fmt.Println("reached:", rk)
	for _, v := range e.Violations {
		fmt.Printf("VIOLATION kind=%s label=%q where=%s\n", v.Kind, v.Label, v.Where)
		var ks []string
		for k := range v.Model {
			ks = append(ks, k)
		}
		sort.Strings(ks)
		for _, k := range ks {
			fmt.Printf("    %s = %#x\n", k, v.Model[k])
		}
	}
}

// tableMux lowers a lookup in a constant byte table with a symbolic index to a multiplexer tree over
// the index bits (equal sub-ranges collapse), instead of an SMT array with len(table) stores.
func tableMux(tab []byte, idx *Term) *Term {
	k := 0
	for (1 << uint(k)) < len(tab) {
		k++
	}
	var rec func(lo, bit int) *Term
	rec = func(lo, bit int) *Term {
		size := 1 << uint(bit)
		hi := lo + size
		if hi > len(tab) {
			hi = len(tab)
		}
		if lo >= len(tab) {
			return Const(8, 0)
		}
		same := true
		for i := lo + 1; i < hi; i++ {
			if tab[i] != tab[lo] {
				same = false
				break
			}
		}
		if same && lo+size <= len(tab) || bit == 0 {
			return Const(8, uint64(tab[lo]))
		}
		b := Eq(Extract(bit-1, bit-1, idx), Const(1, 1))
		return Ite(b, rec(lo+size/2, bit-1), rec(lo, bit-1))
	}
	return rec(0, k)
}

// floatEq is IEEE equality on bit patterns: neither is NaN and (same bits or both zeros).
func floatEq(w int, a, b *Term) *Term {
	var expMask, manMask, absMask uint64
	if w == 32 {
		expMask, manMask, absMask = 0x7f800000, 0x007fffff, 0x7fffffff
	} else {
		expMask, manMask, absMask = 0x7ff0000000000000, 0x000fffffffffffff, 0x7fffffffffffffff
	}
	isNaN := func(x *Term) *Term {
		return And(Eq(BinBV("bvand", x, Const(w, expMask)), Const(w, expMask)), Not(Eq(BinBV("bvand", x, Const(w, manMask)), Const(w, 0))))
	}
	isZero := func(x *Term) *Term { return Eq(BinBV("bvand", x, Const(w, absMask)), Const(w, 0)) }
	return And(Not(isNaN(a)), Not(isNaN(b)), Or(Eq(a, b), And(isZero(a), isZero(b))))
}

func concreteInt(v Value) uint64 {
	t := v.(*Term)
	if !t.IsConst() {
		panic("harness intrinsic needs a concrete integer argument")
	}
	return t.C
}

func (e *Engine) nondetBytes(st *State, name string, max int) SliceV {
	nm := sanitize(name)
	arr := Var("in_"+nm, Arr(8))
	ln := Var("in_"+nm+"_len", BV(64))
	e.addInputArr(inputArr{nm, arr, ln, max})
	e.assume(st, Cmp("bvule", ln, c64(uint64(max))))
	id := e.newObj(st, &Obj{Kind: OArr, Typ: types.Typ[types.Uint8], Arr: MemBase(arr, 8), W: 8, Len: ln, MaxLen: max, Name: nm, Tag: "input:" + nm})
	return SliceV{Obj: id, Off: c64(0), Len: ln, Cap: ln}
}

func (e *Engine) addInputArr(ia inputArr) {
	for i, x := range e.inputArrs {
		if x.name == ia.name {
			if ia.max > x.max {
				e.inputArrs[i].max = ia.max
			}
			if x.len.IsConst() && !ia.len.IsConst() {
				e.inputArrs[i].len = ia.len
			}
			return
		}
	}
	e.inputArrs = append(e.inputArrs, ia)
}

func (e *Engine) addInput(t *Term) {
	for _, x := range e.inputs {
		if x == t {
			return
		}
	}
	e.inputs = append(e.inputs, t)
}

// errorsIs models errors.Is on the engine's error objects: identity, then the %w chain of fmt.Errorf.
func (e *Engine) errorsIs(st *State, err, target IfaceV, depth int) bool {
	if err.T == nil || target.T == nil {
		return err.T == nil && target.T == nil
	}
	if depth > 16 {
		return false
	}
	if types.Identical(err.T, target.T) {
		if pa, ok := err.V.(PtrV); ok {
			if pb, ok := target.V.(PtrV); ok && ptrEq(pa, pb) {
				return true
			}
		}
	}
	if p, ok := err.V.(PtrV); ok && p.Obj != 0 {
		if pt, ok := err.T.(*types.Pointer); ok {
			if n, ok := pt.Elem().(*types.Named); ok && n == e.errType {
				o := e.obj(st, p.Obj)
				for _, w := range o.Vec {
					if wi, ok := w.(IfaceV); ok && e.errorsIs(st, wi, target, depth+1) {
						return true
					}
				}
			}
		}
	}
	return false
}

// constOf returns the contents of a string value that denotes (a slice of) a constant string
func (e *Engine) constOf(st *State, s StringV) *[]byte {
	if s.Obj == 0 {
		b := []byte{}
		return &b
	}
	o := e.obj(st, s.Obj)
	if o.Const == nil || !s.Off.IsConst() || !s.Len.IsConst() || s.Off.C+s.Len.C > uint64(len(o.Const)) {
		return nil
	}
	b := o.Const[s.Off.C : s.Off.C+s.Len.C]
	return &b
}
