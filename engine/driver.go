package main

import (
	"bufio"
	"encoding/json"
	"flag"
	"fmt"
	"go/ast"
	"go/parser"
	"go/token"
	"os"
	"os/exec"
	"path/filepath"
	"regexp"
	"sort"
	"strconv"
	"strings"
	"sync"
	"syscall"
	"time"
)

var evFolded int
var crossSolver map[string]interface{}

// crossCheck re-runs up to 4 harnesses (seeded choice among those that finished within 60 s) with /usr/bin/z3
// (4.8.12) instead of z3 5.1 and compares paths, discharged obligations and the set of sat obligations.
func crossCheck(results []taskResult, specPaths map[*loadedGroup]string, seed, jobs int) map[string]interface{} {
	var cands []taskResult
	for _, r := range results {
		if r.res.Error == "" && r.res.WallSec < 30 && r.res.Queries > 0 {
			cands = append(cands, r)
		}
	}
	if len(cands) == 0 {
		return map[string]interface{}{"harnesses": 0}
	}
	rng := uint64(seed)*6364136223846793005 + 1442695040888963407
	var pick []taskResult
	for len(pick) < 4 && len(cands) > 0 {
		rng = rng*6364136223846793005 + 1442695040888963407
		i := int((rng >> 33) % uint64(len(cands)))
		pick = append(pick, cands[i])
		cands = append(cands[:i], cands[i+1:]...)
	}
	alt := map[*loadedGroup]string{}
	for _, r := range pick {
		lg := r.task.lg
		if _, ok := alt[lg]; ok {
			continue
		}
		b, _ := os.ReadFile(specPaths[lg])
		var spec JobSpec
		json.Unmarshal(b, &spec)
		spec.Solver = "z3"
		spec.Witnesses = 0
		nb, _ := json.Marshal(spec)
		p := strings.TrimSuffix(specPaths[lg], ".json") + "_z3old.json"
		os.WriteFile(p, nb, 0o644)
		alt[lg] = p
	}
	var tasks []task
	for _, r := range pick {
		tasks = append(tasks, r.task)
	}
	res2 := runTasks(tasks, func(lg *loadedGroup) string { return alt[lg] }, jobs, 20*time.Minute, nil)
	disagree := []string{}
	noVerdict := []string{}
	names := []string{}
	for _, a := range pick {
		names = append(names, a.task.name)
		for _, b := range res2 {
			if b.task.name != a.task.name || b.task.lg != a.task.lg {
				continue
			}
			ids := func(hr *HarnessResult) string {
				var x []string
				for _, v := range hr.Violations {
					x = append(x, v.ID)
				}
				sort.Strings(x)
				return strings.Join(x, ";")
			}
			if b.res.Error != "" || len(b.res.Unknowns) > 0 {
				// the older solver ran out of time (or answered unknown) on queries the primary one decides: no second
				// verdict for this harness - recorded, but not a disagreement
				noVerdict = append(noVerdict, fmt.Sprintf("%s: z3 4.8.12 gave no verdict (%s, unknown=%d)", a.task.name, firstLine(b.res.Error), len(b.res.Unknowns)))
				continue
			}
			if a.res.Paths != b.res.Paths || a.res.Obligations != b.res.Obligations || ids(a.res) != ids(b.res) {
				disagree = append(disagree, fmt.Sprintf("%s: z3 5.1 paths=%d obl=%d sat=[%s]; z3 4.8.12 paths=%d obl=%d sat=[%s] err=%q unknown=%d", a.task.name,
					a.res.Paths, a.res.Obligations, ids(a.res), b.res.Paths, b.res.Obligations, ids(b.res), firstLine(b.res.Error), len(b.res.Unknowns)))
			}
		}
	}
	fmt.Printf("== cross-solver (z3 4.8.12) on %v: %d disagreement(s), %d without a second verdict\n", names, len(disagree), len(noVerdict))
	return map[string]interface{}{"second_solver": "z3 4.8.12 (/usr/bin/z3)", "harnesses": names, "disagreements": disagree, "no_second_verdict": noVerdict}
}

var nativeAssertRe = regexp.MustCompile(`VERIF-REPLAY: REPRODUCED assert "(native: [^"]*)"`)

var verifDir = func() string {
	if d := os.Getenv("VERIF_DIR"); d != "" {
		return d
	}
	return "/verif"
}()

// ---- harness discovery and overlays ----

type loadedGroup struct {
	g         *Group
	overlay   map[string]string // virtual -> real (symbolic mode)
	harnesses []string          // all H_* functions found in the harness files (every property)
	files     []string          // real harness files
	work      string
}

func harnessFuncs(files []string) ([]string, error) {
	var out []string
	fset := token.NewFileSet()
	for _, f := range files {
		af, err := parser.ParseFile(fset, f, nil, 0)
		if err != nil {
			return nil, err
		}
		for _, d := range af.Decls {
			fd, ok := d.(*ast.FuncDecl)
			if !ok || fd.Recv != nil || !strings.HasPrefix(fd.Name.Name, "H_") {
				continue
			}
			if fd.Type.Params.NumFields() != 0 || fd.Type.Results.NumFields() != 0 {
				continue
			}
			out = append(out, fd.Name.Name)
		}
	}
	sort.Strings(out)
	return out, nil
}

func renderTemplate(src, dst, pkg string) error {
	b, err := os.ReadFile(src)
	if err != nil {
		return err
	}
	s := strings.ReplaceAll(string(b), "package PKG", "package "+pkg)
	return os.WriteFile(dst, []byte(s), 0o644)
}

// prepareGroup writes the symbolic-mode runtime file and computes the overlay.
func prepareGroup(g *Group, work string) (*loadedGroup, error) {
	lg := &loadedGroup{g: g, overlay: map[string]string{}, work: work}
	hname := g.HarnessDir
	if hname == "" {
		hname = g.Name
	}
	hdir := filepath.Join(verifDir, "harness", hname)
	files, _ := filepath.Glob(filepath.Join(hdir, "*.go"))
	sort.Strings(files)
	if len(files) == 0 {
		return nil, fmt.Errorf("no harness files in %s", hdir)
	}
	lg.files = files
	for _, f := range files {
		lg.overlay[filepath.Join(g.PkgDir, "zz_verif_"+filepath.Base(f))] = f
	}
	rt := filepath.Join(work, g.Name+"_rt_sym.go")
	if err := renderTemplate(filepath.Join(verifDir, "harness", "rt", "sym.go.tmpl"), rt, g.PkgName); err != nil {
		return nil, err
	}
	lg.overlay[filepath.Join(g.PkgDir, "zz_verif_rt.go")] = rt
	if g.ExtraRT != "" {
		x := filepath.Join(work, g.Name+"_rt_sym_"+g.ExtraRT+".go")
		if err := renderTemplate(filepath.Join(verifDir, "harness", "rt", "sym_"+g.ExtraRT+".go.tmpl"), x, g.PkgName); err != nil {
			return nil, err
		}
		lg.overlay[filepath.Join(g.PkgDir, "zz_verif_rt_"+g.ExtraRT+".go")] = x
	}
	hs, err := harnessFuncs(files)
	if err != nil {
		return nil, err
	}
	lg.harnesses = hs
	return lg, nil
}

// ---- worker pool ----

type task struct {
	lg   *loadedGroup
	name string
}

type taskResult struct {
	task task
	res  *HarnessResult
}

type workerProc struct {
	cmd   *exec.Cmd
	in    *bufio.Writer
	out   *bufio.Scanner
	lines chan string
}

func startWorker(specPath string) (*workerProc, error) {
	cmd := exec.Command(os.Args[0], "worker", specPath)
	cmd.SysProcAttr = &syscall.SysProcAttr{Setpgid: true}
	cmd.Stderr = os.Stderr
	inp, err := cmd.StdinPipe()
	if err != nil {
		return nil, err
	}
	outp, err := cmd.StdoutPipe()
	if err != nil {
		return nil, err
	}
	if err := cmd.Start(); err != nil {
		return nil, err
	}
	w := &workerProc{cmd: cmd, in: bufio.NewWriter(inp), lines: make(chan string, 16)}
	sc := bufio.NewScanner(outp)
	sc.Buffer(make([]byte, 1<<20), 1<<28)
	go func() {
		for sc.Scan() {
			w.lines <- sc.Text()
		}
		close(w.lines)
	}()
	return w, nil
}

func (w *workerProc) kill() {
	if w.cmd.Process != nil {
		syscall.Kill(-w.cmd.Process.Pid, syscall.SIGKILL)
	}
	w.cmd.Wait()
}

// waitLine waits for a line with the given prefix.
func (w *workerProc) waitLine(prefixes []string, timeout time.Duration) (string, error) {
	deadline := time.After(timeout)
	for {
		select {
		case l, ok := <-w.lines:
			if !ok {
				return "", fmt.Errorf("worker exited")
			}
			for _, p := range prefixes {
				if strings.HasPrefix(l, p) {
					return l, nil
				}
			}
			// other chatter from the worker: pass through to stderr
			fmt.Fprintln(os.Stderr, "worker: "+l)
		case <-deadline:
			return "", fmt.Errorf("timeout")
		}
	}
}

func runTasks(tasks []task, specFor func(*loadedGroup) string, jobs int, perTask time.Duration, progress func(taskResult)) []taskResult {
	var mu sync.Mutex
	next := 0
	var results []taskResult
	var wg sync.WaitGroup
	if jobs > len(tasks) {
		jobs = len(tasks)
	}
	for j := 0; j < jobs; j++ {
		wg.Add(1)
		go func() {
			defer wg.Done()
			var wp *workerProc
			var wpGroup *loadedGroup
			defer func() {
				if wp != nil {
					wp.in.Flush()
					wp.kill()
				}
			}()
			for {
				mu.Lock()
				if next >= len(tasks) {
					mu.Unlock()
					return
				}
				t := tasks[next]
				next++
				mu.Unlock()
				fail := func(msg string) {
					r := taskResult{t, &HarnessResult{Name: t.name, Error: msg, Reached: map[string]int{}, Funcs: map[string]int{}}}
					mu.Lock()
					results = append(results, r)
					mu.Unlock()
					if progress != nil {
						progress(r)
					}
				}
				if wp == nil || wpGroup != t.lg {
					if wp != nil {
						wp.kill()
						wp = nil
					}
					var err error
					wp, err = startWorker(specFor(t.lg))
					if err != nil {
						fail("cannot start worker: " + err.Error())
						wp = nil
						continue
					}
					wpGroup = t.lg
					l, err := wp.waitLine([]string{"READY", "LOADERROR"}, 10*time.Minute)
					if err != nil || strings.HasPrefix(l, "LOADERROR") {
						fail("worker load failed: " + l + fmt.Sprint(err))
						wp.kill()
						wp = nil
						continue
					}
				}
				fmt.Fprintln(wp.in, t.name)
				wp.in.Flush()
				l, err := wp.waitLine([]string{"RESULT "}, perTask)
				if err != nil {
					fail("harness did not finish: " + err.Error())
					wp.kill()
					wp = nil
					continue
				}
				var hr HarnessResult
				if err := json.Unmarshal([]byte(strings.TrimPrefix(l, "RESULT ")), &hr); err != nil {
					fail("bad worker result: " + err.Error())
					continue
				}
				r := taskResult{t, &hr}
				mu.Lock()
				results = append(results, r)
				mu.Unlock()
				if progress != nil {
					progress(r)
				}
			}
		}()
	}
	wg.Wait()
	sort.Slice(results, func(i, j int) bool { return results[i].task.name < results[j].task.name })
	return results
}

// ---- known findings ----

type KnownFinding struct {
	Property string            `json:"property"`
	ID       string            `json:"id"` // <harness>/<obligation id>
	// IDPattern (optional): a regular expression over <harness>/<obligation id> for a finding that surfaces in several
	// harnesses under one cause-specific obligation label
	IDPattern string `json:"id_pattern,omitempty"`
	Status   string            `json:"status"` // open | fixed
	Commit   string            `json:"commit,omitempty"`
	What     string            `json:"what"`
	Witness  map[string]string `json:"witness,omitempty"`
}

func matchesPattern(pat, s string) bool {
	if pat == "" {
		return false
	}
	re, err := regexp.Compile(pat)
	return err == nil && re.MatchString(s)
}

func loadKnown() ([]KnownFinding, error) {
	b, err := os.ReadFile(filepath.Join(verifDir, "known_findings.json"))
	if os.IsNotExist(err) {
		return nil, nil
	}
	if err != nil {
		return nil, err
	}
	var kf []KnownFinding
	if err := json.Unmarshal(b, &kf); err != nil {
		return nil, fmt.Errorf("known_findings.json: %v", err)
	}
	return kf, nil
}

// ---- check ----

func cmdList(prop string) int {
	ps := props[prop]
	if ps == nil {
		fmt.Println("unknown property", prop)
		return 2
	}
	work, _ := os.MkdirTemp("", "vsym-list-")
	defer os.RemoveAll(work)
	for _, gn := range ps.Groups {
		lg, err := prepareGroup(groups[gn], work)
		if err != nil {
			fmt.Println(err)
			return 2
		}
		for _, h := range lg.harnesses {
			if strings.HasPrefix(h, "H_"+prop+"_") {
				fmt.Println(gn, h)
			}
		}
	}
	return 0
}

func cmdCheck(args []string) int {
	fs := flag.NewFlagSet("check", flag.ExitOnError)
	tier := fs.String("tier", "", "quick|thorough (default: $VERIF_TIER or quick)")
	jobs := fs.Int("jobs", 16, "parallel workers")
	only := fs.String("only", "", "regexp selecting harness names")
	keep := fs.Bool("keep", false, "keep the work directory")
	noReplay := fs.Bool("no-replay", false, "skip native replays (debugging only; never exit 0/1 verdicts)")
	trace := fs.Bool("trace", false, "trace instructions in workers")
	smtlog := fs.String("smtlog", "", "prefix for per-harness SMT logs")
	tmo := fs.Int("timeout", 0, "per-harness timeout in seconds (overrides the property's)")
	cross := fs.Bool("cross-solver", false, "re-run a sample of harnesses on z3 4.8.12 and compare (always on in thorough)")
	var prop string
	if len(args) > 0 && !strings.HasPrefix(args[0], "-") {
		prop = args[0]
		args = args[1:]
	}
	fs.Parse(args)
	if prop == "" && fs.NArg() > 0 {
		prop = fs.Arg(0)
	}
	ps := props[prop]
	if ps == nil {
		fmt.Println("unknown property", prop)
		return 2
	}
	if *tier == "" {
		*tier = os.Getenv("VERIF_TIER")
	}
	if *tier != "thorough" {
		*tier = "quick"
	}
	tierN := 0
	if *tier == "thorough" {
		tierN = 1
	}
	seed, _ := strconv.Atoi(os.Getenv("VERIF_SEED"))
	t0 := time.Now()

	workRoot := filepath.Join(verifDir, ".work")
	os.MkdirAll(workRoot, 0o755)
	work, err := os.MkdirTemp(workRoot, prop+"-")
	if err != nil {
		fmt.Println(err)
		return 2
	}
	if !*keep {
		defer os.RemoveAll(work)
	}

	var re *regexp.Regexp
	if *only != "" {
		re = regexp.MustCompile(*only)
	}
	var tasks []task
	var lgs []*loadedGroup
	specPaths := map[*loadedGroup]string{}
	for _, gn := range ps.Groups {
		g := groups[gn]
		if g.Corpus {
			gc := *g
			g = &gc
			if err := buildCorpus(g, work); err != nil {
				fmt.Println("INCONCLUSIVE: corpus pipeline failed:", err)
				return 2
			}
		}
		lg, err := prepareGroup(g, work)
		if err != nil {
			fmt.Println("INCONCLUSIVE:", err)
			return 2
		}
		lgs = append(lgs, lg)
		spec := JobSpec{Property: prop, Dir: g.Dir, Pkg: g.Pkg, Overlay: lg.overlay, Targets: g.Targets, Merge: g.Merge, StubPkgs: g.StubPkgs,
			SkipTargetInit: g.SkipTargetInit, ResetStub: g.ResetStub, Unwind: g.Unwind, Tier: tierN, Solver: "z3-new",
			SolverTimeoutMs: 60000, Seed: seed, Witnesses: 4, Trace: *trace, SmtLog: *smtlog}
		if tierN == 1 {
			spec.Witnesses = 12
		}
		if ps.Witnesses > 0 {
			spec.Witnesses = ps.Witnesses
		}
		sp := filepath.Join(work, g.Name+"_spec.json")
		sb, _ := json.Marshal(spec)
		os.WriteFile(sp, sb, 0o644)
		specPaths[lg] = sp
		for _, h := range lg.harnesses {
			if !strings.HasPrefix(h, "H_"+prop+"_") {
				continue
			}
			if strings.HasSuffix(h, "_Thorough") && tierN == 0 {
				continue
			}
			if re != nil && !re.MatchString(h) {
				continue
			}
			if g.Only != "" && !regexp.MustCompile(g.Only).MatchString(h) {
				continue
			}
			tasks = append(tasks, task{lg, h})
		}
	}
	if len(tasks) == 0 {
		fmt.Println("INCONCLUSIVE: no harnesses selected")
		return 2
	}
	perTask := time.Duration(ps.QuickTimeout) * time.Second
	if tierN == 1 {
		perTask = time.Duration(ps.ThorTimeout) * time.Second
	}
	if perTask == 0 {
		perTask = 10 * time.Minute
	}
	if *tmo > 0 {
		perTask = time.Duration(*tmo) * time.Second
	}
	fmt.Printf("== %s tier=%s: %d harnesses, %d workers\n", prop, *tier, len(tasks), *jobs)
	results := runTasks(tasks, func(lg *loadedGroup) string { return specPaths[lg] }, *jobs, perTask, func(r taskResult) {
		hr := r.res
		status := "ok"
		if hr.Error != "" {
			status = "ERROR " + firstLine(hr.Error)
		} else if len(hr.Violations) > 0 {
			status = fmt.Sprintf("%d sat obligation(s)", len(hr.Violations))
		}
		fmt.Printf("  %-5s %-44s paths=%-5d obl=%-5d queries=%-5d %.1fs  %s\n", r.task.lg.g.Name, hr.Name, hr.Paths, hr.Obligations, hr.Queries, hr.WallSec, status)
	})

	// thorough: re-run a seeded sample of the cheaper harnesses on a second solver (z3 4.8.12) and compare verdicts
	if tierN == 1 || *cross {
		crossSolver = crossCheck(results, specPaths, seed, *jobs)
	}
	return finishCheck(ps, *tier, seed, t0, work, lgs, results, *noReplay, re != nil)
}

func firstLine(s string) string {
	if i := strings.IndexByte(s, '\n'); i >= 0 {
		return s[:i]
	}
	return s
}

type violationRec struct {
	Harness string
	V       ViolationJSON
	Group   *loadedGroup
	Replay  string // path of the replay file
	Verdict string // REPRODUCED ... | NOT-REPRODUCED | ERROR ...
	Known   *KnownFinding
}

func finishCheck(ps *PropSpec, tier string, seed int, t0 time.Time, work string, lgs []*loadedGroup, results []taskResult, noReplay, partial bool) int {
	tierN := 0
	if tier == "thorough" {
		tierN = 1
	}
	prop := ps.ID
	inconclusive := []string{}
	engineErr := []string{}
	var viols []*violationRec
	type witRec struct {
		task task
		w    Witness
	}
	var wits []witRec

	agg := struct {
		paths, steps, forks, obligations, obq, queries, sat, unsat, unknown, core, pool, merged int
		solver                                                                                 float64
	}{}
	folded := 0
	funcs := map[string]int{}
	reach := map[string]int{}
	stubs := map[string]bool{}
	assumes := map[string]bool{}
	for _, r := range results {
		hr := r.res
		agg.paths += hr.Paths
		agg.steps += hr.Steps
		agg.forks += hr.Forks
		agg.obligations += hr.Obligations
		folded += hr.Folded
		agg.obq += hr.ObQueries
		agg.queries += hr.Queries
		agg.sat += hr.Sat
		agg.unsat += hr.Unsat
		agg.unknown += len(hr.Unknowns)
		agg.core += hr.CoreHits
		agg.pool += hr.PoolHits
		agg.merged += hr.Merged
		agg.solver += hr.SolverSec
		for k, v := range hr.Funcs {
			funcs[k] = v
		}
		for k, v := range hr.Reached {
			reach[hr.Name+"/"+k] += v
		}
		for _, s := range hr.Stubs {
			stubs[s] = true
		}
		for _, s := range hr.Assumes {
			assumes[s] = true
		}
		if hr.Error != "" {
			inconclusive = append(inconclusive, hr.Name+": "+firstLine(hr.Error))
		}
		if hr.Unwound > 0 {
			inconclusive = append(inconclusive, fmt.Sprintf("%s: unwinding assertion failed on %d path(s): %s", hr.Name, hr.Unwound, strings.Join(hr.UnwoundAt, "; ")))
		}
		for _, u := range hr.Unknowns {
			inconclusive = append(inconclusive, hr.Name+": solver returned unknown for "+u.ID)
		}
		if hr.Error == "" && hr.Reached["end"] == 0 {
			inconclusive = append(inconclusive, hr.Name+": vacuity guard: no feasible path reaches verifReach(\"end\")")
		}
		for _, v := range hr.Violations {
			viols = append(viols, &violationRec{Harness: hr.Name, V: v, Group: r.task.lg})
		}
		for _, w := range hr.Witnesses {
			wits = append(wits, witRec{r.task, w})
		}
	}

	if crossSolver != nil {
		if d, ok := crossSolver["disagreements"].([]string); ok {
			for _, x := range d {
				inconclusive = append(inconclusive, "solvers disagree: "+x)
			}
		}
	}
	// ---- native replay of counterexamples and of path witnesses ----
	replayDir := filepath.Join(verifDir, "replays", prop)
	os.MkdirAll(replayDir, 0o755)
	// remove stale replay files of earlier runs for this property
	if !partial {
		old, _ := filepath.Glob(filepath.Join(replayDir, "*.json"))
		for _, o := range old {
			os.Remove(o)
		}
	}
	validated := 0
	witMismatch := []string{}
	var nativeViols []*violationRec
	if !noReplay && (len(viols) > 0 || len(wits) > 0) {
		runners := map[*loadedGroup]*replayRunner{}
		raceRunners := map[*loadedGroup]*replayRunner{}
		getRunner := func(lg *loadedGroup) (*replayRunner, error) {
			if rr, ok := runners[lg]; ok {
				return rr, nil
			}
			rr, err := buildReplayRunner(lg, work)
			if err != nil {
				return nil, err
			}
			runners[lg] = rr
			return rr, nil
		}
		getRaceRunner := func(lg *loadedGroup) (*replayRunner, error) {
			if rr, ok := raceRunners[lg]; ok {
				return rr, nil
			}
			rr, err := buildReplayRunnerOpt(lg, work, true)
			if err != nil {
				return nil, err
			}
			raceRunners[lg] = rr
			return rr, nil
		}
		for i, v := range viols {
			rf := ReplayFile{Property: prop, Group: v.Group.g.Name, Harness: v.Harness, Obligation: v.V.ID, Kind: v.V.Kind, Label: v.V.Label, Inputs: v.V.Inputs, Expect: expectOf(v.V), Tier: tierN}
			path := filepath.Join(replayDir, fmt.Sprintf("%s-%d.json", v.Harness, i))
			b, _ := json.MarshalIndent(rf, "", " ")
			os.WriteFile(path, b, 0o644)
			v.Replay = path
			rr, err := getRunner(v.Group)
			if v.V.Kind == "ownership" || strings.HasPrefix(v.Harness, "H_C15_") {
				rr, err = getRaceRunner(v.Group)
			}
			if err != nil {
				v.Verdict = "ERROR replay build failed: " + firstLine(err.Error())
				continue
			}
			out := rr.run(v.Harness, path)
			v.Verdict = judgeReplay(v.V, out)
			if (strings.HasPrefix(v.Harness, "H_C15_") || v.V.Kind == "ownership") && !strings.HasPrefix(v.Verdict, "REPRODUCED") {
				// C15 harnesses replay as a goroutine workload under the race detector: any failure of that
				// workload (data race, foreign value, panic) confirms the single-thread obligation that failed
				if strings.Contains(out, "WARNING: DATA RACE") {
					v.Verdict = "REPRODUCED data race reported by the Go race detector"
				} else if strings.Contains(out, "VERIF-REPLAY: REPRODUCED") {
					v.Verdict = "REPRODUCED " + lastLines(out, 1)
				}
			}
		}
		// witnesses: inputs of feasible complete paths must run natively without failure and observe the same values
		var mu sync.Mutex
		var wg sync.WaitGroup
		sem := make(chan struct{}, 16)
		for i, wr := range wits {
			rr, err := getRunner(wr.task.lg)
			if err != nil {
				engineErr = append(engineErr, "witness replay build failed: "+firstLine(err.Error()))
				break
			}
			wg.Add(1)
			sem <- struct{}{}
			go func(i int, wr witRec) {
				defer wg.Done()
				defer func() { <-sem }()
				rf := ReplayFile{Property: prop, Group: wr.task.lg.g.Name, Harness: wr.task.name, Obligation: "witness", Inputs: wr.w.Inputs, Expect: "pass", Tier: tierN}
				path := filepath.Join(work, fmt.Sprintf("wit-%d.json", i))
				b, _ := json.Marshal(rf)
				os.WriteFile(path, b, 0o644)
				out := rr.run(wr.task.name, path)
				mu.Lock()
				defer mu.Unlock()
				if !strings.Contains(out, "VERIF-REPLAY: NOT-REPRODUCED") {
					// assertions labelled "native: ..." exist only in the native branch of a harness (they observe the
					// real runtimes / the real scheduler where the solver run sees stubs): their failure on an input the
					// solver enumerated is a violation shown by the real code, not a translator mismatch
					if m := nativeAssertRe.FindStringSubmatch(out); m != nil {
						rp := filepath.Join(replayDir, fmt.Sprintf("%s-w%d.json", wr.task.name, i))
						rf.Obligation, rf.Kind, rf.Label, rf.Expect = "assert:"+m[1]+"@native", "assert", m[1], "assert:"+m[1]
						rb, _ := json.MarshalIndent(rf, "", " ")
						os.WriteFile(rp, rb, 0o644)
						nativeViols = append(nativeViols, &violationRec{Harness: wr.task.name, Group: wr.task.lg, Replay: rp,
							V: ViolationJSON{ID: "assert:" + m[1] + "@native", Kind: "assert", Label: m[1], Inputs: wr.w.Inputs}, Verdict: "REPRODUCED assert " + strconv.Quote(m[1])})
						return
					}
					witMismatch = append(witMismatch, fmt.Sprintf("%s: path witness %v does not pass natively: %s", wr.task.name, wr.w.Inputs, lastLines(out, 3)))
					return
				}
				obs := parseObserve(out)
				for k, want := range wr.w.Observe {
					if got, ok := obs[k]; !ok || got != want {
						witMismatch = append(witMismatch, fmt.Sprintf("%s: observe %s: engine %d native %d (present=%v) inputs=%v", wr.task.name, k, want, got, ok, wr.w.Inputs))
						return
					}
				}
				validated++
			}(i, wr)
		}
		wg.Wait()
	}
	engineErr = append(engineErr, witMismatch...)
	seenNative := map[string]bool{}
	for _, nv := range nativeViols {
		k := nv.Harness + "/" + nv.V.ID
		if !seenNative[k] {
			seenNative[k] = true
			viols = append(viols, nv)
		}
	}

	// ---- classify ----
	known, err := loadKnown()
	if err != nil {
		fmt.Println("INCONCLUSIVE:", err)
		return 2
	}
	exit := 0
	var violLines, knownLines []string
	for _, v := range viols {
		full := v.Harness + "/" + v.V.ID
		switch {
		case noReplay:
			fmt.Printf("SAT (not replayed) %s inputs=%v\n", full, v.V.Inputs)
		case strings.HasPrefix(v.Verdict, "REPRODUCED"):
			var kf *KnownFinding
			for i := range known {
				if known[i].Property == prop && known[i].Status == "open" && (known[i].ID == full || matchesPattern(known[i].IDPattern, full)) {
					kf = &known[i]
				}
			}
			if kf != nil {
				v.Known = kf
				knownLines = append(knownLines, fmt.Sprintf("KNOWN-FINDING: property=%s %s [%s]", prop, kf.What, full))
			} else {
				violLines = append(violLines, fmt.Sprintf("VIOLATION property=%s replay=%s", prop, v.Replay))
				fmt.Printf("  violated obligation %s\n    inputs=%s\n    native: %s\n", full, fmtInputs(v.V.Inputs), v.Verdict)
			}
		default:
			engineErr = append(engineErr, fmt.Sprintf("%s: solver counterexample did not reproduce natively (%s) inputs=%s", full, v.Verdict, fmtInputs(v.V.Inputs)))
		}
	}
	for _, l := range knownLines {
		fmt.Println(l)
	}
	for _, l := range violLines {
		fmt.Println(l)
	}
	if len(violLines) > 0 {
		exit = 1
	}
	if exit == 0 && len(engineErr) > 0 {
		exit = 3
	}
	if exit == 0 && len(inconclusive) > 0 {
		exit = 2
	}
	for _, s := range engineErr {
		fmt.Println("ENGINE-ERROR:", s)
	}
	for _, s := range inconclusive {
		fmt.Println("INCONCLUSIVE:", s)
	}

	// ---- evidence ----
	wall := time.Since(t0).Seconds()
	if !partial {
		evFolded = folded
		writeEvidence(ps, tier, seed, wall, results, viols, validated, len(wits), funcs, reach, stubs, assumes, inconclusive, engineErr, agg.paths, agg.forks, agg.obligations, agg.obq, agg.queries, agg.sat, agg.unsat, agg.unknown, agg.core, agg.pool, agg.merged, agg.solver, len(violLines), len(knownLines))
	}
	fmt.Printf("== %s tier=%s: harnesses=%d paths=%d obligations=%d (in %d batches) queries=%d solver=%.1fs witnesses validated=%d/%d wall=%.1fs exit=%d\n",
		prop, tier, len(results), agg.paths, agg.obligations, agg.obq, agg.queries, agg.solver, validated, len(wits), wall, exit)
	return exit
}

func lastLines(s string, n int) string {
	ls := strings.Split(strings.TrimSpace(s), "\n")
	if len(ls) > n {
		ls = ls[len(ls)-n:]
	}
	return strings.Join(ls, " | ")
}

func fmtInputs(m map[string]uint64) string {
	var ks []string
	for k := range m {
		ks = append(ks, k)
	}
	sort.Strings(ks)
	var sb strings.Builder
	for i, k := range ks {
		if i > 0 {
			sb.WriteByte(' ')
		}
		fmt.Fprintf(&sb, "%s=%#x", strings.TrimPrefix(k, "in_"), m[k])
		if i > 40 {
			sb.WriteString(" ...")
			break
		}
	}
	return sb.String()
}

func writeEvidence(ps *PropSpec, tier string, seed int, wall float64, results []taskResult, viols []*violationRec, validated, witTotal int,
	funcs map[string]int, reach map[string]int, stubs, assumes map[string]bool, inconclusive, engineErr []string,
	paths, forks, obligations, obq, queries, sat, unsat, unknown, core, pool, merged int, solverSec float64, nViol, nKnown int) {
	var fnames []string
	for k, v := range funcs {
		if strings.Contains(k, ".H_") || strings.Contains(k, ".nondet") || strings.Contains(k, ".verif") {
			continue
		}
		fnames = append(fnames, fmt.Sprintf("%s (%d instrs)", shortName(k), v))
	}
	sort.Strings(fnames)
	var samples []interface{}
	perHarness := []interface{}{}
	for _, r := range results {
		hr := r.res
		perHarness = append(perHarness, map[string]interface{}{"harness": hr.Name, "group": r.task.lg.g.Name, "paths": hr.Paths, "obligations": hr.Obligations, "queries": hr.Queries,
			"solver_s": round2(hr.SolverSec), "wall_s": round2(hr.WallSec), "reached": hr.Reached, "sat_obligations": len(hr.Violations), "error": hr.Error})
		if len(hr.Witnesses) > 0 && len(samples) < 12 {
			samples = append(samples, map[string]interface{}{"kind": "path witness (input driving one feasible path; replayed natively)", "harness": hr.Name, "inputs": hr.Witnesses[0].Inputs, "observed": hr.Witnesses[0].Observe})
		}
	}
	for _, v := range viols {
		if len(samples) < 24 {
			samples = append(samples, map[string]interface{}{"kind": "counterexample", "obligation": v.Harness + "/" + v.V.ID, "inputs": v.V.Inputs, "native_verdict": v.Verdict, "known_finding": v.Known != nil})
		}
	}
	if len(samples) == 0 {
		samples = append(samples, map[string]interface{}{"kind": "none", "note": "no harness produced a witness"})
	}
	keys := func(m map[string]bool) []string {
		var o []string
		for k := range m {
			o = append(o, k)
		}
		sort.Strings(o)
		return o
	}
	cov := map[string]interface{}{
		"states":                        paths,
		"transitions":                   forks + paths,
		"traces_validated_against_impl": validated,
		"samples":                       samples,
		"obligations":                   obligations + len(viols) + evFolded,
		"discharged":                    obligations + evFolded,
		"obligation_batches":            obq,
		"obligations_decided_by_simplifier": evFolded,
		"sat_obligations":               len(viols),
		"harnesses":                     len(results),
		"per_harness":                   perHarness,
		"functions_encoded":             fnames,
		"stubs":                         keys(stubs),
		"solver":                        map[string]interface{}{"name": "z3 5.1.0 (z3-new)", "queries": queries, "sat": sat, "unsat": unsat, "unknown": unknown, "unsat_core_cache_hits": core, "model_pool_hits": pool, "merged_pure_calls": merged, "seconds": round2(solverSec), "per_query_timeout_s": 60},
		"reach_labels":                  reach,
		"cross_solver":                  crossSolver,
		"witnesses_sampled":             witTotal,
		"inconclusive":                  inconclusive,
		"engine_errors":                 engineErr,
		"bounds":                        ps.Bounds,
		"outside_claim":                 ps.Outside,
		"known_findings_reported":       nKnown,
		"explanation":                   ps.Explanation,
		"evaluations":                   paths,
		"distinct_nontrivial":           paths,
		"rule":                          "one evaluation = one feasible path of a harness through the real SSA (distinct path conditions); every obligation on it discharged by the SMT solver for all inputs satisfying the path condition",
	}
	if ps.TrustedBase != nil {
		cov["trusted_base"] = ps.TrustedBase
	}
	ev := map[string]interface{}{
		"property_id": ps.ID,
		"tier":        tier,
		"seed":        seed,
		"level":       ps.Level,
		"coverage":    cov,
		"assumptions": append(append([]string{}, keys(assumes)...), ps.TrustedBase...),
		"wall_s":      round2(wall),
		"violations":  nViol,
	}
	os.MkdirAll(filepath.Join(verifDir, "evidence"), 0o755)
	b, _ := json.MarshalIndent(ev, "", " ")
	os.WriteFile(filepath.Join(verifDir, "evidence", ps.ID+".json"), b, 0o644)
}

func round2(f float64) float64 { return float64(int(f*100)) / 100 }
