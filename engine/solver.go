package main

import (
	"bufio"
	"fmt"
	"io"
	"os/exec"
	"regexp"
	"strconv"
	"strings"
	"time"
)

type Solver struct {
	cmd     *exec.Cmd
	in      io.WriteCloser
	out     *bufio.Reader
	Queries int
	Sat     int
	Unsat   int
	Unknown int
	Time    time.Duration
	Log     io.Writer
	name    string
	Incremental bool
	Cores    bool
	LastCore []*Term
	Seed     int
}

func NewSolver(bin string, args ...string) (*Solver, error) {
	cmd := exec.Command(bin, args...)
	in, err := cmd.StdinPipe()
	if err != nil {
		return nil, err
	}
	out, err := cmd.StdoutPipe()
	if err != nil {
		return nil, err
	}
	cmd.Stderr = cmd.Stdout
	if err := cmd.Start(); err != nil {
		return nil, err
	}
	s := &Solver{cmd: cmd, in: in, out: bufio.NewReader(out), name: bin}
	s.send("(set-option :produce-models true)\n")
	return s, nil
}

func (s *Solver) send(txt string) {
	if s.Log != nil {
		io.WriteString(s.Log, txt)
	}
	io.WriteString(s.in, txt)
}

func (s *Solver) Close() {
	s.send("(exit)\n")
	s.in.Close()
	s.cmd.Wait()
}

// readSexp reads one balanced s-expression or atom line from solver output.
func (s *Solver) readSexp() (string, error) {
	var sb strings.Builder
	depth := 0
	started := false
	for {
		r, _, err := s.out.ReadRune()
		if err != nil {
			return sb.String(), err
		}
		if !started {
			if r == ' ' || r == '\n' || r == '\t' || r == '\r' {
				continue
			}
			started = true
		}
		if r == '(' {
			depth++
		}
		if r == ')' {
			depth--
		}
		if depth == 0 && (r == '\n' || r == ')') {
			if r == ')' {
				sb.WriteRune(r)
			}
			return sb.String(), nil
		}
		sb.WriteRune(r)
	}
}

type Result int

const (
	RUnsat Result = iota
	RSat
	RUnknown
)

func (r Result) String() string { return [...]string{"unsat", "sat", "unknown"}[r] }

// Check asks whether the conjunction of conds is satisfiable.
func (s *Solver) Check(conds []*Term, wantModel bool, modelTerms []*Term) (Result, *Model, error) {
	TS.selects = nil
	t0 := time.Now()
	defer func() { s.Time += time.Since(t0) }()
	var defs strings.Builder
	if !s.Incremental {
		TS.defed = map[int]bool{} // every query is self-contained: (reset) + cone of definitions
	}
	names := make([]string, 0, len(conds))
	nameTerms := make([]*Term, 0, len(conds))
	for _, c := range conds {
		if c.IsTrue() {
			continue
		}
		if c.IsFalse() {
			s.Queries++
			s.Unsat++
			return RUnsat, nil, nil
		}
		names = append(names, TS.Emit(&defs, c))
		nameTerms = append(nameTerms, c)
	}
	mnames := make([]string, 0, len(modelTerms))
	for _, mt := range modelTerms {
		mnames = append(mnames, TS.Emit(&defs, mt))
	}
	var q strings.Builder
	if s.Incremental {
		q.WriteString(defs.String())
		q.WriteString("(push)\n")
	} else {
		q.WriteString("(reset)\n(set-option :produce-models true)\n")
		if s.Seed != 0 {
			fmt.Fprintf(&q, "(set-option :random-seed %d)\n", s.Seed)
		}
		if s.Cores {
			q.WriteString("(set-option :produce-unsat-cores true)\n")
		}
		q.WriteString(defs.String())
	}
	for i, n := range names {
		if s.Cores {
			fmt.Fprintf(&q, "(assert (! %s :named a%d))\n", n, i)
		} else {
			fmt.Fprintf(&q, "(assert %s)\n", n)
		}
	}
	q.WriteString("(check-sat)\n")
	s.send(q.String())
	s.Queries++
	ans, err := s.readSexp()
	if err != nil {
		return RUnknown, nil, err
	}
	ans = strings.TrimSpace(ans)
	var res Result
	switch ans {
	case "sat":
		res = RSat
		s.Sat++
	case "unsat":
		res = RUnsat
		s.Unsat++
	case "unknown":
		res = RUnknown
		s.Unknown++
	default:
		return RUnknown, nil, fmt.Errorf("solver said: %q", ans)
	}
	if s.Incremental {
		defer s.send("(pop)\n")
	}
	s.LastCore = nil
	if res == RUnsat && s.Cores {
		s.send("(get-unsat-core)\n")
		txt, err := s.readSexp()
		if err == nil {
			for _, f := range strings.Fields(strings.Trim(strings.TrimSpace(txt), "()")) {
				if k, err := strconv.Atoi(strings.TrimPrefix(f, "a")); err == nil && k < len(nameTerms) {
					s.LastCore = append(s.LastCore, nameTerms[k])
				}
			}
		}
	}
	var model *Model
	if res == RSat && wantModel && len(mnames) > 0 {
		model = &Model{BV: map[string]uint64{}, B: map[string]bool{}, Arr: map[string]*ArrModel{}}
		s.send("(get-value (" + strings.Join(mnames, " ") + "))\n")
		txt, err := s.readSexp()
		if err != nil {
			return res, nil, err
		}
		vals := parseValues(txt)
		if len(vals) != len(modelTerms) {
			return res, nil, fmt.Errorf("get-value parse: %d vs %d: %s", len(vals), len(modelTerms), txt)
		}
		for i, mt := range modelTerms {
			key := mt.ref()
			if mt.S.K == SBool {
				model.B[key] = vals[i] == 1
			} else {
				model.BV[key] = vals[i]
			}
		}
	}
	return res, model, nil
}

var valRe = regexp.MustCompile(`#x[0-9a-fA-F]+|#b[01]+|\(_ bv[0-9]+ [0-9]+\)|\btrue\b|\bfalse\b`)

// parseValues extracts the value part of each (term value) pair, in order. Terms are referenced by
// name (tN / var name) so the term text never contains literals.
func parseValues(txt string) []uint64 {
	var out []uint64
	for _, m := range valRe.FindAllString(txt, -1) {
		switch {
		case strings.HasPrefix(m, "#x"):
			v, _ := strconv.ParseUint(m[2:], 16, 64)
			out = append(out, v)
		case strings.HasPrefix(m, "#b"):
			v, _ := strconv.ParseUint(m[2:], 2, 64)
			out = append(out, v)
		case m == "true":
			out = append(out, 1)
		case m == "false":
			out = append(out, 0)
		default:
			f := strings.Fields(strings.Trim(m, "()"))
			v, _ := strconv.ParseUint(strings.TrimPrefix(f[1], "bv"), 10, 64)
			out = append(out, v)
		}
	}
	return out
}
