package main

import (
	"fmt"
	"go/types"
	"os"
	"path/filepath"
	"sort"
	"strings"

	"golang.org/x/tools/go/ssa"
)

// whereOf names the obligation site without line numbers: the innermost frame that belongs to a
// target package and is not a harness function ("the API function under test"), followed by the
// function containing the instruction when that differs (a callee from a dependency).
func (e *Engine) whereOf(st *State, where ssa.Instruction) (string, string) {
	site := "?"
	if where != nil {
		site = where.Parent().String()
	}
	api := ""
	for i := len(st.frames) - 1; i >= 0; i-- {
		fn := st.frames[i].fn
		if fn.Pkg == nil && fn.Origin() != nil {
			fn = fn.Origin()
		}
		if fn.Pkg != nil && e.targets[fn.Pkg.Pkg.Path()] {
			if !isHarnessFn(st.frames[i].fn) || i == 0 {
				api = shortFn(st.frames[i].fn)
				break
			}
			// harness helper (H_ / h_ / ref*): keep looking only if nothing below is API code
			api = shortFn(st.frames[i].fn)
			break
		}
	}
	s := shortName(site)
	if api == "" || api == s {
		return s, site
	}
	return api + ">" + s, site
}

func isHarnessFn(fn *ssa.Function) bool {
	n := fn.Name()
	return strings.HasPrefix(n, "H_") || strings.HasPrefix(n, "h_")
}

func shortFn(fn *ssa.Function) string { return shortName(fn.String()) }

// shortName strips module paths: (*github.com/CrowdStrike/csproto.Decoder).DecodeTag -> (*csproto.Decoder).DecodeTag
func shortName(s string) string {
	for _, pre := range []string{"github.com/CrowdStrike/", "google.golang.org/protobuf/", "github.com/", "verifcorpus/"} {
		s = strings.ReplaceAll(s, pre, "")
	}
	return s
}

// recordWitness stores a model of a completed path (an input that drives the real code down it).
func (e *Engine) recordWitness(st *State) {
	if e.wantWitnesses <= 0 || len(e.witnesses) >= e.wantWitnesses {
		return
	}
	m := st.model
	if m == nil {
		r, mm := e.check(append([]*Term(nil), st.pc...))
		if r != RSat || mm == nil {
			return
		}
		m = mm
	}
	w := Witness{Inputs: map[string]uint64{}, Observe: map[string]uint64{}}
	for k, x := range m.BV {
		w.Inputs[k] = x
	}
	for k, x := range m.B {
		if x {
			w.Inputs[k] = 1
		} else {
			w.Inputs[k] = 0
		}
	}
	for an, am := range m.Arr {
		for i, x := range am.M {
			w.Inputs[fmt.Sprintf("%s[%d]", an, i)] = x
		}
	}
	ok := true
	func() {
		defer func() {
			if r := recover(); r != nil {
				ok = false
			}
		}()
		for _, o := range st.observe {
			w.Observe[o.name] = m.Eval(o.t)
		}
	}()
	if !ok {
		return
	}
	w.Reached = append([]string(nil), st.reached...)
	var ks []string
	for k, v := range w.Inputs {
		ks = append(ks, fmt.Sprintf("%s=%d", k, v))
	}
	sort.Strings(ks)
	key := strings.Join(ks, ",")
	if e.witSeen == nil {
		e.witSeen = map[string]bool{}
	}
	if e.witSeen[key] {
		return
	}
	e.witSeen[key] = true
	e.witnesses = append(e.witnesses, w)
}

// noteAssume records the source text of a verifAssume call (part of the claim; copied into the evidence).
func (e *Engine) noteAssume(x *ssa.Call) {
	if x == nil || e.assumeTexts == nil {
		return
	}
	pos := e.prog.Fset.Position(x.Pos())
	if !pos.IsValid() {
		return
	}
	real := pos.Filename
	if r, ok := e.overlay[pos.Filename]; ok {
		real = r
	}
	if e.srcLines == nil {
		e.srcLines = map[string][]string{}
	}
	lines, ok := e.srcLines[real]
	if !ok {
		b, _ := os.ReadFile(real)
		lines = strings.Split(string(b), "\n")
		e.srcLines[real] = lines
	}
	if pos.Line-1 < len(lines) {
		e.assumeTexts[filepath.Base(real)+": "+strings.TrimSpace(lines[pos.Line-1])] = true
	}
}

// ---- thread-modular ownership (C09/C11/C15 concurrency clauses) ----

// markReachable adds every heap object reachable from v to set (pool contents are not followed: an
// object sitting in a sync.Pool is owned by the pool, and by exactly one getter after Get).
func (e *Engine) markReachable(st *State, v Value, set map[int]bool) {
	switch tv := v.(type) {
	case PtrV:
		e.markObj(st, tv.Obj, set)
	case SliceV:
		e.markObj(st, tv.Obj, set)
	case StringV:
		e.markObj(st, tv.Obj, set)
	case MapV:
		e.markObj(st, tv.Obj, set)
	case IfaceV:
		if tv.T != nil {
			e.markReachable(st, tv.V, set)
		}
	case FuncV:
		for _, b := range tv.Bind {
			e.markReachable(st, b, set)
		}
	case StructV:
		for _, f := range tv.Fields {
			e.markReachable(st, f, set)
		}
	case ArrayV:
		for _, x := range tv.Elems {
			e.markReachable(st, x, set)
		}
	case TupleV:
		for _, x := range tv {
			e.markReachable(st, x, set)
		}
	}
}

func (e *Engine) markObj(st *State, id int, set map[int]bool) {
	if id == 0 || set[id] {
		return
	}
	o, ok := st.heap[id]
	if !ok {
		return // immutable global constant
	}
	set[id] = true
	switch o.Kind {
	case OCell:
		e.markReachable(st, o.Val, set)
	case OVec:
		for _, x := range o.Vec {
			e.markReachable(st, x, set)
		}
	case OMap:
		for _, en := range o.Ents {
			e.markReachable(st, en.K, set)
			e.markReachable(st, en.V, set)
		}
	}
}

func (e *Engine) ownershipViolation(st *State, id int) {
	o := e.obj(st, id)
	where, site := "?", "?"
	if e.curInstr != nil {
		where, site = e.whereOf(st, e.curInstr)
	}
	key := "ownership|" + where
	if e.seenViol[key] {
		return
	}
	e.seenViol[key] = true
	v := Violation{Kind: "ownership", Label: "non-atomic write to an object other goroutines can reach (" + o.Name + ")", Where: where, Site: site, Model: map[string]uint64{}}
	if r, m := e.check(append([]*Term(nil), st.pc...)); r == RSat && m != nil {
		for k, x := range m.BV {
			v.Model[k] = x
		}
		for k, x := range m.B {
			if x {
				v.Model[k] = 1
			} else {
				v.Model[k] = 0
			}
		}
		for an, am := range m.Arr {
			for i, x := range am.M {
				v.Model[fmt.Sprintf("%s[%d]", an, i)] = x
			}
		}
	}
	e.Violations = append(e.Violations, v)
}

// collectRefs gathers the lengths of all slices/strings reachable from v whose backing object is target.
func (e *Engine) collectRefs(st *State, v Value, target int, seen map[int]bool, out *[]*Term) {
	visitObj := func(id int) {
		if id == 0 || seen[id] || id == target {
			return
		}
		o, ok := st.heap[id]
		if !ok {
			return
		}
		seen[id] = true
		switch o.Kind {
		case OCell:
			e.collectRefs(st, o.Val, target, seen, out)
		case OVec:
			for _, x := range o.Vec {
				e.collectRefs(st, x, target, seen, out)
			}
		case OMap:
			for _, en := range o.Ents {
				e.collectRefs(st, en.K, target, seen, out)
				e.collectRefs(st, en.V, target, seen, out)
			}
		}
	}
	switch tv := v.(type) {
	case PtrV:
		visitObj(tv.Obj)
	case SliceV:
		if tv.Obj == target {
			*out = append(*out, tv.Len)
		}
		visitObj(tv.Obj)
	case StringV:
		if tv.Obj == target {
			*out = append(*out, tv.Len)
		}
	case MapV:
		visitObj(tv.Obj)
	case IfaceV:
		if tv.T != nil {
			e.collectRefs(st, tv.V, target, seen, out)
		}
	case StructV:
		for _, f := range tv.Fields {
			e.collectRefs(st, f, target, seen, out)
		}
	case ArrayV:
		for _, x := range tv.Elems {
			e.collectRefs(st, x, target, seen, out)
		}
	case TupleV:
		for _, x := range tv {
			e.collectRefs(st, x, target, seen, out)
		}
	}
}

// stubField reads a field of the receiver (first argument) of a recorded stub call, by name.
func (e *Engine) stubField(st *State, _ *ssa.Function, rec stubRec, field string) Value {
	if len(rec.args) == 0 {
		panic("stub call without receiver")
	}
	var sv StructV
	var stt *types.Struct
	callee := e.lookupFn(rec.name)
	if callee == nil || callee.Signature.Recv() == nil {
		panic("cannot resolve stub " + rec.name)
	}
	rt := callee.Signature.Recv().Type()
	switch a := rec.args[0].(type) {
	case StructV:
		sv = a
		stt = rt.Underlying().(*types.Struct)
	case PtrV:
		sv = e.load(st, a, nil).(StructV)
		stt = rt.Underlying().(*types.Pointer).Elem().Underlying().(*types.Struct)
	default:
		panic("unexpected stub receiver")
	}
	for i := 0; i < stt.NumFields(); i++ {
		if stt.Field(i).Name() == field {
			return sv.Fields[i]
		}
	}
	panic("no field " + field + " in receiver of " + rec.name)
}

func (e *Engine) lookupFn(name string) *ssa.Function {
	if e.fnByName == nil {
		e.fnByName = map[string]*ssa.Function{}
	}
	if f, ok := e.fnByName[name]; ok {
		return f
	}
	return nil
}
