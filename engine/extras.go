package main

import (
	"go/token"
	"fmt"
	"go/types"
	"regexp"
	"os"
	"path/filepath"
	"sort"
	"strings"

	"golang.org/x/tools/go/ssa"
)

// whereOf names the obligation site without line numbers: the innermost frame that belongs to a
// target package and is not a harness function ("the API function under test"), followed by the
// function containing the instruction when that differs (a callee from a dependency).
func (e *Engine) whereOf(st *State, where ssa.Instruction) (string, string) {
	site := "?"
	if where != nil {
		site = where.Parent().String()
	}
	api := ""
	for i := len(st.frames) - 1; i >= 0; i-- {
		fn := st.frames[i].fn
		if fn.Pkg == nil && fn.Origin() != nil {
			fn = fn.Origin()
		}
		if fn.Pkg != nil && e.targets[fn.Pkg.Pkg.Path()] {
			if !isHarnessFn(st.frames[i].fn) || i == 0 {
				api = shortFn(st.frames[i].fn)
				break
			}
			// harness helper (H_ / h_ / ref*): keep looking only if nothing below is API code
			api = shortFn(st.frames[i].fn)
			break
		}
	}
	s := shortName(site)
	if api == "" || api == s {
		return s, site
	}
	return api + ">" + s, site
}

func isHarnessFn(fn *ssa.Function) bool {
	n := fn.Name()
	return strings.HasPrefix(n, "H_") || strings.HasPrefix(n, "h_")
}

func shortFn(fn *ssa.Function) string { return shortName(fn.String()) }

// shortName strips module paths: (*github.com/CrowdStrike/csproto.Decoder).DecodeTag -> (*csproto.Decoder).DecodeTag
var variantPkgRe = regexp.MustCompile(`\bp([23])(pm|u)\.`)

func shortName(s string) string {
	s = variantPkgRe.ReplaceAllString(s, "p$1.") // generator-option variants of a corpus package share obligation identities
	for _, pre := range []string{"github.com/CrowdStrike/", "google.golang.org/protobuf/", "github.com/", "verifcorpus/"} {
		s = strings.ReplaceAll(s, pre, "")
	}
	return s
}

// recordWitness stores a model of a completed path (an input that drives the real code down it).
func (e *Engine) recordWitness(st *State) {
	if e.wantWitnesses <= 0 || len(e.witnesses) >= e.wantWitnesses {
		return
	}
	m := st.model
	if m == nil {
		r, mm := e.check(append([]*Term(nil), st.pc...))
		if r != RSat || mm == nil {
			return
		}
		m = mm
	}
	w := Witness{Inputs: map[string]uint64{}, Observe: map[string]uint64{}}
	for k, x := range m.BV {
		w.Inputs[k] = x
	}
	for k, x := range m.B {
		if x {
			w.Inputs[k] = 1
		} else {
			w.Inputs[k] = 0
		}
	}
	for an, am := range m.Arr {
		for i, x := range am.M {
			w.Inputs[fmt.Sprintf("%s[%d]", an, i)] = x
		}
	}
	ok := true
	func() {
		defer func() {
			if r := recover(); r != nil {
				ok = false
			}
		}()
		for _, o := range st.observe {
			w.Observe[o.name] = m.Eval(o.t)
		}
	}()
	if !ok {
		return
	}
	w.Reached = append([]string(nil), st.reached...)
	var ks []string
	for k, v := range w.Inputs {
		ks = append(ks, fmt.Sprintf("%s=%d", k, v))
	}
	sort.Strings(ks)
	key := strings.Join(ks, ",")
	if e.witSeen == nil {
		e.witSeen = map[string]bool{}
	}
	if e.witSeen[key] {
		return
	}
	e.witSeen[key] = true
	e.witnesses = append(e.witnesses, w)
}

// noteAssume records the source text of a verifAssume call (part of the claim; copied into the evidence).
func (e *Engine) noteAssume(x *ssa.Call) {
	if x == nil || e.assumeTexts == nil {
		return
	}
	pos := e.prog.Fset.Position(x.Pos())
	if !pos.IsValid() {
		return
	}
	real := pos.Filename
	if r, ok := e.overlay[pos.Filename]; ok {
		real = r
	}
	if e.srcLines == nil {
		e.srcLines = map[string][]string{}
	}
	lines, ok := e.srcLines[real]
	if !ok {
		b, _ := os.ReadFile(real)
		lines = strings.Split(string(b), "\n")
		e.srcLines[real] = lines
	}
	if pos.Line-1 < len(lines) {
		e.assumeTexts[filepath.Base(real)+": "+strings.TrimSpace(lines[pos.Line-1])] = true
	}
}

// ---- thread-modular ownership (C09/C11/C15 concurrency clauses) ----

// markReachable adds every heap object reachable from v to set (pool contents are not followed: an
// object sitting in a sync.Pool is owned by the pool, and by exactly one getter after Get).
func (e *Engine) markReachable(st *State, v Value, set map[int]bool) {
	switch tv := v.(type) {
	case PtrV:
		e.markObj(st, tv.Obj, set)
	case SliceV:
		e.markObj(st, tv.Obj, set)
	case StringV:
		e.markObj(st, tv.Obj, set)
	case MapV:
		e.markObj(st, tv.Obj, set)
	case IfaceV:
		if tv.T != nil {
			e.markReachable(st, tv.V, set)
		}
	case FuncV:
		for _, b := range tv.Bind {
			e.markReachable(st, b, set)
		}
	case StructV:
		for _, f := range tv.Fields {
			e.markReachable(st, f, set)
		}
	case ArrayV:
		for _, x := range tv.Elems {
			e.markReachable(st, x, set)
		}
	case TupleV:
		for _, x := range tv {
			e.markReachable(st, x, set)
		}
	}
}

func (e *Engine) markObj(st *State, id int, set map[int]bool) {
	if id == 0 || set[id] {
		return
	}
	o, ok := st.heap[id]
	if !ok {
		return // immutable global constant
	}
	set[id] = true
	switch o.Kind {
	case OCell:
		e.markReachable(st, o.Val, set)
	case OVec:
		for _, x := range o.Vec {
			e.markReachable(st, x, set)
		}
	case OMap:
		for _, en := range o.Ents {
			e.markReachable(st, en.K, set)
			e.markReachable(st, en.V, set)
		}
	}
}

func (e *Engine) ownershipViolation(st *State, id int) {
	o := e.obj(st, id)
	where, site := "?", "?"
	if e.curInstr != nil {
		where, site = e.whereOf(st, e.curInstr)
	}
	key := "ownership|" + where
	if e.seenViol[key] {
		return
	}
	e.seenViol[key] = true
	v := Violation{Kind: "ownership", Label: "non-atomic write to an object other goroutines can reach (" + o.Name + ")", Where: where, Site: site, Model: map[string]uint64{}}
	if r, m := e.check(append([]*Term(nil), st.pc...)); r == RSat && m != nil {
		for k, x := range m.BV {
			v.Model[k] = x
		}
		for k, x := range m.B {
			if x {
				v.Model[k] = 1
			} else {
				v.Model[k] = 0
			}
		}
		for an, am := range m.Arr {
			for i, x := range am.M {
				v.Model[fmt.Sprintf("%s[%d]", an, i)] = x
			}
		}
	}
	e.Violations = append(e.Violations, v)
}

// collectRefs gathers the lengths of all slices/strings reachable from v whose backing object is target.
func (e *Engine) collectRefs(st *State, v Value, target int, seen map[int]bool, out *[]*Term) {
	visitObj := func(id int) {
		if id == 0 || seen[id] || id == target {
			return
		}
		o, ok := st.heap[id]
		if !ok {
			return
		}
		seen[id] = true
		switch o.Kind {
		case OCell:
			e.collectRefs(st, o.Val, target, seen, out)
		case OVec:
			for _, x := range o.Vec {
				e.collectRefs(st, x, target, seen, out)
			}
		case OMap:
			for _, en := range o.Ents {
				e.collectRefs(st, en.K, target, seen, out)
				e.collectRefs(st, en.V, target, seen, out)
			}
		}
	}
	switch tv := v.(type) {
	case PtrV:
		visitObj(tv.Obj)
	case SliceV:
		if tv.Obj == target {
			*out = append(*out, tv.Len)
		}
		visitObj(tv.Obj)
	case StringV:
		if tv.Obj == target {
			*out = append(*out, tv.Len)
		}
	case MapV:
		visitObj(tv.Obj)
	case IfaceV:
		if tv.T != nil {
			e.collectRefs(st, tv.V, target, seen, out)
		}
	case StructV:
		for _, f := range tv.Fields {
			e.collectRefs(st, f, target, seen, out)
		}
	case ArrayV:
		for _, x := range tv.Elems {
			e.collectRefs(st, x, target, seen, out)
		}
	case TupleV:
		for _, x := range tv {
			e.collectRefs(st, x, target, seen, out)
		}
	}
}

// stubField reads a field of the receiver (first argument) of a recorded stub call, by name.
func (e *Engine) stubField(st *State, _ *ssa.Function, rec stubRec, field string) Value {
	if len(rec.args) == 0 {
		panic("stub call without receiver")
	}
	var sv StructV
	var stt *types.Struct
	callee := e.lookupFn(rec.name)
	if callee == nil || callee.Signature.Recv() == nil {
		panic("cannot resolve stub " + rec.name)
	}
	rt := callee.Signature.Recv().Type()
	switch a := rec.args[0].(type) {
	case StructV:
		sv = a
		stt = rt.Underlying().(*types.Struct)
	case PtrV:
		sv = e.load(st, a, nil).(StructV)
		stt = rt.Underlying().(*types.Pointer).Elem().Underlying().(*types.Struct)
	default:
		panic("unexpected stub receiver")
	}
	for i := 0; i < stt.NumFields(); i++ {
		if stt.Field(i).Name() == field {
			return sv.Fields[i]
		}
	}
	panic("no field " + field + " in receiver of " + rec.name)
}

func (e *Engine) lookupFn(name string) *ssa.Function {
	if e.fnByName == nil {
		e.fnByName = map[string]*ssa.Function{}
	}
	if f, ok := e.fnByName[name]; ok {
		return f
	}
	return nil
}

// ---- strings helpers on strings of concrete length with symbolic contents ----

func (e *Engine) strBytes(st *State, v Value) ([]*Term, StringV, bool) {
	s, ok := v.(StringV)
	if !ok || !s.Len.IsConst() {
		return nil, s, false
	}
	if s.Len.C == 0 {
		return nil, s, true
	}
	o := e.obj(st, s.Obj)
	out := make([]*Term, s.Len.C)
	for i := range out {
		out[i] = o.Arr.Read(BinBV("bvadd", s.Off, c64(uint64(i))))
	}
	return out, s, true
}

// forkOn continues the current state under Not(c) and queues a copy under c whose call result is res
func (e *Engine) forkOn(st *State, x *ssa.Call, c *Term, res Value) {
	if r, mdl := e.check(append(append([]*Term(nil), st.pc...), c)); r != RUnsat {
		alt := st.clone()
		af := alt.frames[len(alt.frames)-1]
		af.env[x] = res
		alt.pc = append(alt.pc, c)
		alt.model = mdl
		e.extraForks = append(e.extraForks, alt)
		e.Forks++
	}
	e.extendPC(st, Not(c))
}

// stringsScan models strings.Index / IndexByte / Count for a one-byte constant separator by case-splitting
// on the positions of the separator (the string has concrete length, its bytes are symbolic).
func (e *Engine) stringsScan(st *State, f *Frame, x *ssa.Call, name string, args []Value) (Value, bool) {
	bs, _, ok := e.strBytes(st, args[0])
	if !ok || x == nil {
		return nil, false
	}
	var sep *Term
	if name == "strings.IndexByte" {
		sep = args[1].(*Term)
	} else {
		c := e.constOf(st, args[1].(StringV))
		if c == nil || len(*c) != 1 {
			return nil, false
		}
		sep = Const(8, uint64((*c)[0]))
	}
	if name == "strings.Count" {
		// decide every byte (fork per undecided byte); the count is then concrete on each path
		return e.countFrom(st, x, bs, sep, 0, 0), true
	}
	for i, b := range bs {
		c := Eq(b, sep)
		if c.IsTrue() {
			return c64(uint64(i)), true
		}
		if c.IsFalse() {
			continue
		}
		e.forkOn(st, x, c, c64(uint64(i)))
		if st.model == nil && e.feasible(st) == RUnsat {
			panic(pathEnd{"infeasible"})
		}
	}
	return Const(64, ^uint64(0)), true
}

func (e *Engine) countFrom(st *State, x *ssa.Call, bs []*Term, sep *Term, from, acc int) Value {
	for i := from; i < len(bs); i++ {
		c := Eq(bs[i], sep)
		if c.IsTrue() {
			acc++
			continue
		}
		if c.IsFalse() {
			continue
		}
		// fork: the alternative state (byte is a separator) finishes the count itself
		if r, mdl := e.check(append(append([]*Term(nil), st.pc...), c)); r != RUnsat {
			alt := st.clone()
			alt.pc = append(alt.pc, c)
			alt.model = mdl
			af := alt.frames[len(alt.frames)-1]
			af.env[x] = e.countFrom(alt, x, bs, sep, i+1, acc+1)
			e.extraForks = append(e.extraForks, alt)
			e.Forks++
		}
		e.extendPC(st, Not(c))
	}
	return c64(uint64(acc))
}

// stringsMap models strings.Map on a string of concrete length whose bytes are ASCII: the mapping closure is
// evaluated symbolically per byte (all its paths joined), then each byte is case-split into dropped / kept.
func (e *Engine) stringsMap(st *State, f *Frame, x *ssa.Call, args []Value) (Value, bool) {
	fnv, ok := args[0].(FuncV)
	bs, _, ok2 := e.strBytes(st, args[1])
	if !ok || !ok2 || fnv.Fn == nil || x == nil {
		return nil, false
	}
	type choice struct {
		drop *Term
		keep *Term // byte value when kept
	}
	var cs []choice
	for _, b := range bs {
		e.assume(st, Cmp("bvult", b, Const(8, 0x80)))
		if e.assumeTexts != nil {
			e.assumeTexts["engine: strings.Map model - input bytes restricted to ASCII (< 0x80)"] = true
		}
		if !e.mergeCallBind(st, f, nil, fnv.Fn, []Value{ZExt(32, b)}, fnv.Bind) {
			return nil, false
		}
		r := e.lastPure.(*Term)
		cs = append(cs, choice{Cmp("bvslt", r, Const(32, 0)), Extract(7, 0, r)})
	}
	// enumerate the drop patterns depth-first through forks
	var build func(s *State, i int, kept []*Term) Value
	build = func(s *State, i int, kept []*Term) Value {
		for ; i < len(cs); i++ {
			d := cs[i].drop
			if d.IsTrue() {
				continue
			}
			if d.IsFalse() {
				kept = append(kept, cs[i].keep)
				continue
			}
			if r, mdl := e.check(append(append([]*Term(nil), s.pc...), d)); r != RUnsat {
				alt := s.clone()
				alt.pc = append(alt.pc, d)
				alt.model = mdl
				af := alt.frames[len(alt.frames)-1]
				af.env[x] = build(alt, i+1, append([]*Term(nil), kept...))
				e.extraForks = append(e.extraForks, alt)
				e.Forks++
			}
			e.extendPC(s, Not(d))
			kept = append(kept, cs[i].keep)
		}
		if len(kept) == 0 {
			return StringV{Off: c64(0), Len: c64(0)}
		}
		arr := MemZero(8)
		for k, t := range kept {
			arr = arr.Write(c64(uint64(k)), t)
		}
		id := e.newObj(s, &Obj{Kind: OArr, Typ: types.Typ[types.Uint8], Arr: arr, W: 8, Len: c64(uint64(len(kept))), MaxLen: len(kept), Name: "strings.Map"})
		return StringV{Obj: id, Off: c64(0), Len: c64(uint64(len(kept)))}
	}
	return build(st, 0, nil), true
}

func (e *Engine) sameValue(a, b Value) bool {
	ai, ok1 := a.(IfaceV)
	bi, ok2 := b.(IfaceV)
	if ok1 && ok2 {
		if ai.T == nil || bi.T == nil {
			return ai.T == nil && bi.T == nil
		}
		if !types.Identical(ai.T, bi.T) {
			return false
		}
		return e.sameValue(ai.V, bi.V)
	}
	at, ok1 := a.(*Term)
	bt, ok2 := b.(*Term)
	if ok1 && ok2 {
		return at == bt
	}
	return false
}

// cacheRewrite: an entry of a concurrent map that other goroutines may already have read is overwritten with
// a different value (thread-modular obligation for caches that must be stable under concurrent first use)
func (e *Engine) cacheRewrite(st *State, x *ssa.Call, key string) {
	where, site := "?", "?"
	if x != nil {
		where, site = e.whereOf(st, x)
	}
	k := "ownership|cache|" + where
	if e.seenViol[k] {
		return
	}
	e.seenViol[k] = true
	v := Violation{Kind: "ownership", Label: "an entry of a shared sync.Map is overwritten with a different value (readers in other goroutines can observe the earlier one)", Where: where, Site: site, Model: map[string]uint64{}}
	if r, m := e.check(append([]*Term(nil), st.pc...)); r == RSat && m != nil {
		for kk, xx := range m.BV {
			v.Model[kk] = xx
		}
		for kk, xx := range m.B {
			if xx {
				v.Model[kk] = 1
			} else {
				v.Model[kk] = 0
			}
		}
	}
	e.Violations = append(e.Violations, v)
}

// noteSharedAccess enforces "a shared cell that is written atomically is never read non-atomically": the
// other goroutine's atomic store races with a plain load (Go memory model), even if all writers are atomic.
func (e *Engine) noteSharedAccess(st *State, p PtrV, atomic, write bool) {
	key := fmt.Sprintf("%d", p.Obj)
	for _, pe := range p.Path {
		if pe.Idx != nil {
			key += fmt.Sprintf("[%d]", pe.Idx.ID)
		} else {
			key += fmt.Sprintf(".%d", pe.Field)
		}
	}
	if st.atomicW == nil {
		st.atomicW, st.plainR = map[string]bool{}, map[string]bool{}
	}
	bad := false
	switch {
	case atomic && write:
		st.atomicW[key] = true
		bad = st.plainR[key]
	case !atomic && !write:
		st.plainR[key] = true
		bad = st.atomicW[key]
	}
	if !bad {
		return
	}
	where, site := "?", "?"
	if e.curInstr != nil {
		where, site = e.whereOf(st, e.curInstr)
	}
	k := "ownership|mixed|" + where
	if e.seenViol[k] {
		return
	}
	e.seenViol[k] = true
	v := Violation{Kind: "ownership", Label: "a shared location that is stored atomically is also read non-atomically (data race with a concurrent caller)", Where: where, Site: site, Model: map[string]uint64{}}
	if r, m := e.check(append([]*Term(nil), st.pc...)); r == RSat && m != nil {
		for kk, xx := range m.BV {
			v.Model[kk] = xx
		}
		for kk, xx := range m.B {
			if xx {
				v.Model[kk] = 1
			} else {
				v.Model[kk] = 0
			}
		}
		for an, am := range m.Arr {
			for i, x := range am.M {
				v.Model[fmt.Sprintf("%s[%d]", an, i)] = x
			}
		}
	}
	e.Violations = append(e.Violations, v)
}


// extModelCall is a contract model of google.golang.org/protobuf/proto.{Has,Get,Set,Clear}Extension for generated
// messages: the populated extensions of a message live in its own `extensionFields` field (as in the real runtime,
// so Reset / struct assignment clears them), keyed by field number; the value stored is the Go value passed to
// SetExtension. The descriptor is a *protoimpl.ExtensionInfo whose Field and ExtensionType fields are read.
// GetExtension of an unpopulated extension returns the type's default (zero value, nil []byte, typed nil message) -
// declared [default=...] values are not modelled. SetExtension with a value of another Go type panics (violation),
// with a nil message pointer clears. Anything else (dynamic messages, other descriptor types) is left to the stubs.
func (e *Engine) extModelCall(st *State, x *ssa.Call, name string, args []Value) (Value, bool) {
	short := name[strings.LastIndex(name, ".")+1:]
	switch short {
	case "HasExtension", "GetExtension", "SetExtension", "ClearExtension":
	default:
		return nil, false
	}
	mi, ok1 := args[0].(IfaceV)
	xi, ok2 := args[1].(IfaceV)
	if !ok1 || !ok2 || mi.T == nil || xi.T == nil {
		return nil, false
	}
	mp, ok1 := mi.V.(PtrV)
	xp, ok2 := xi.V.(PtrV)
	if !ok1 || !ok2 || mp.Obj == 0 || xp.Obj == 0 {
		return nil, false
	}
	mpt, ok := mi.T.Underlying().(*types.Pointer)
	if !ok {
		return nil, false
	}
	ms, ok := mpt.Elem().Underlying().(*types.Struct)
	if !ok {
		return nil, false
	}
	fieldIdx := func(s *types.Struct, n string) int {
		for i := 0; i < s.NumFields(); i++ {
			if s.Field(i).Name() == n {
				return i
			}
		}
		return -1
	}
	efi := fieldIdx(ms, "extensionFields")
	xpt, ok := xi.T.Underlying().(*types.Pointer)
	if efi < 0 || !ok {
		return nil, false
	}
	xs, ok := xpt.Elem().Underlying().(*types.Struct)
	if !ok {
		return nil, false
	}
	nfi, tfi := fieldIdx(xs, "Field"), fieldIdx(xs, "ExtensionType")
	if nfi < 0 || tfi < 0 {
		return nil, false
	}
	sub := func(p PtrV, i int) PtrV {
		return PtrV{Obj: p.Obj, Path: append(append([]PElem(nil), p.Path...), PElem{Field: i})}
	}
	num, _ := e.load(st, sub(xp, nfi), xs.Field(nfi).Type()).(*Term)
	ety, _ := e.load(st, sub(xp, tfi), xs.Field(tfi).Type()).(IfaceV)
	if num == nil || !num.IsConst() || ety.T == nil {
		panic("extension model: descriptor without a concrete Field / ExtensionType")
	}
	// Go type of the values of this extension and its default
	var vt types.Type
	var def Value
	switch u := ety.T.Underlying().(type) {
	case *types.Pointer:
		if _, isStruct := u.Elem().Underlying().(*types.Struct); isStruct {
			vt, def = ety.T, PtrV{}
		} else {
			vt, def = u.Elem(), zero(u.Elem())
		}
	case *types.Slice:
		vt, def = ety.T, zero(ety.T)
	default:
		panic(fmt.Sprintf("extension model: unsupported ExtensionType %v", ety.T))
	}
	if e.stubsUsed != nil {
		e.stubsUsed["model:google.golang.org/protobuf/proto extension store (Has/Get/Set/ClearExtension on generated messages)"] = true
	}
	fp := sub(mp, efi)
	mv, _ := e.load(st, fp, ms.Field(efi).Type()).(MapV)
	find := func() (int, bool) {
		if mv.Obj == 0 {
			return 0, false
		}
		for i, en := range e.obj(st, mv.Obj).Ents {
			if k, ok := en.K.(*Term); ok && k.IsConst() && k.C == num.C {
				return i, true
			}
		}
		return 0, false
	}
	remove := func() {
		if i, ok := find(); ok {
			o := e.mutObj(st, mv.Obj)
			o.Ents = append(append([]MapEntry(nil), o.Ents[:i]...), o.Ents[i+1:]...)
		}
	}
	switch short {
	case "HasExtension":
		_, has := find()
		return BoolC(has), true
	case "GetExtension":
		if i, ok := find(); ok {
			return e.obj(st, mv.Obj).Ents[i].V, true
		}
		return IfaceV{T: vt, V: def}, true
	case "ClearExtension":
		remove()
		return nil, true
	default: // SetExtension
		v, _ := args[2].(IfaceV)
		e.require(st, BoolC(v.T != nil && types.Identical(v.T, vt)), "panic", "proto.SetExtension is given a value whose Go type is not the extension's (the runtime panics)", x)
		if v.T == nil || !types.Identical(v.T, vt) {
			return nil, true
		}
		if pv, isPtr := v.V.(PtrV); isPtr && pv.Obj == 0 {
			remove()
			return nil, true
		}
		if mv.Obj == 0 {
			id := e.newObj(st, &Obj{Kind: OMap, Name: "extensionFields"})
			mv = MapV{Obj: id}
			e.store(st, fp, mv)
		}
		if i, ok := find(); ok {
			e.mutObj(st, mv.Obj).Ents[i].V = v
		} else {
			o := e.mutObj(st, mv.Obj)
			o.Ents = append(append([]MapEntry(nil), o.Ents...), MapEntry{K: Const(32, num.C), V: v})
		}
		return nil, true
	}
}


// smallPureLeaf: a callee that is merged automatically (like the functions on the per-group merge list): a small
// branching helper without calls, stores, allocations or loops whose results are scalars - `boolByte(v)`,
// `zigZag32(v)`, a size table written as a switch. Called with at least one symbolic scalar argument it would
// fork the caller once per call; merged, its result is one ite-term. mergeCall itself still refuses (and the
// ordinary call happens) if the sub-exploration touches the heap.
func (e *Engine) smallPureLeaf(fn *ssa.Function, args []Value) bool {
	if e.leafCache == nil {
		e.leafCache = map[*ssa.Function]bool{}
	}
	ok, seen := e.leafCache[fn]
	if !seen {
		ok = isSmallPureLeaf(fn)
		e.leafCache[fn] = ok
	}
	if !ok {
		return false
	}
	for _, a := range args {
		if t, isT := a.(*Term); isT && !t.IsConst() {
			return true
		}
	}
	return false
}

func isSmallPureLeaf(fn *ssa.Function) bool {
	if fn.Blocks == nil || len(fn.Blocks) < 2 || len(fn.Blocks) > 24 || len(fn.FreeVars) > 0 {
		return false
	}
	res := fn.Signature.Results()
	if res.Len() == 0 {
		return false
	}
	for i := 0; i < res.Len(); i++ {
		if _, basic := res.At(i).Type().Underlying().(*types.Basic); !basic {
			return false
		}
	}
	for i := 0; i < fn.Signature.Params().Len(); i++ {
		if _, basic := fn.Signature.Params().At(i).Type().Underlying().(*types.Basic); !basic {
			return false
		}
	}
	for _, b := range fn.Blocks {
		for _, in := range b.Instrs {
			switch v := in.(type) {
			case *ssa.BinOp, *ssa.UnOp, *ssa.Convert, *ssa.ChangeType, *ssa.Phi, *ssa.Return, *ssa.Jump, *ssa.DebugRef:
				if u, isUn := v.(*ssa.UnOp); isUn && u.Op == token.MUL { // a load
					return false
				}
			case *ssa.If:
				// a back edge means a loop
				for _, succ := range b.Succs {
					if succ.Index <= b.Index {
						return false
					}
				}
			default:
				return false
			}
		}
		for _, succ := range b.Succs {
			if succ.Index <= b.Index {
				return false
			}
		}
	}
	return true
}
