package main

// Abstract dynamic types ("profiles"): an interface value whose dynamic type is unknown; each interface
// the code probes becomes one symbolic Boolean, constrained by interface inclusion.

import (
	"fmt"
	"go/token"
	"go/types"
	"sort"
	"strings"

	"golang.org/x/tools/go/ssa"
)

type Profile struct {
	Name  string
	Named *types.Named
	bits  map[string]*Term
	ifs   map[string]*types.Interface
	Kind  *Term // reflect.Kind
}

func (e *Engine) newProfile(name string) *Profile {
	n := types.NewNamed(types.NewTypeName(token.NoPos, nil, "abstract_"+name, nil), types.NewStruct(nil, nil), nil)
	p := &Profile{Name: name, Named: n, bits: map[string]*Term{}, ifs: map[string]*types.Interface{}}
	p.Kind = Var("prof_"+name+"_kind", BV(64))
	e.addInput(p.Kind)
	if e.profiles == nil {
		e.profiles = map[*types.Named]*Profile{}
	}
	e.profiles[n] = p
	return p
}

func (e *Engine) profileOf(t types.Type) *Profile {
	if n, ok := t.(*types.Named); ok {
		return e.profiles[n]
	}
	return nil
}

// implBit returns the symbolic "dynamic type implements it" bit, adding inclusion constraints.
func (e *Engine) implBit(st *State, p *Profile, it *types.Interface, label string) *Term {
	key := types.TypeString(it, nil)
	if b, ok := p.bits[key]; ok {
		return b
	}
	if it.NumMethods() == 0 {
		return True()
	}
	b := Var(fmt.Sprintf("prof_%s_impl_%s", p.Name, sanitize(label)), BoolSort)
	e.addInput(b)
	for k, other := range p.ifs {
		ob := p.bits[k]
		if types.Implements(it, other) { // it has all methods of other
			e.assume(st, Implies(b, ob))
		}
		if types.Implements(other, it) {
			e.assume(st, Implies(ob, b))
		}
	}
	p.bits[key] = b
	p.ifs[key] = it
	return b
}

func (e *Engine) logCall(st *State, s string) { st.log = append(st.log, s) }

// freshResults fabricates unconstrained results for an uninterpreted call.
func (e *Engine) freshResults(st *State, x *ssa.Call, sig *types.Signature, tag string) {
	res := sig.Results()
	vals := make([]Value, res.Len())
	var errIdx []int
	for i := 0; i < res.Len(); i++ {
		t := res.At(i).Type()
		switch u := t.Underlying().(type) {
		case *types.Basic:
			if u.Info()&types.IsBoolean != 0 {
				e.skolem++
				v := Var(fmt.Sprintf("ret_%s_%d", sanitize(tag), e.skolem), BoolSort)
				e.addInput(v)
				vals[i] = v
			} else if u.Info()&types.IsString != 0 {
				vals[i] = e.constString("<" + tag + ">")
			} else {
				w, _, _ := basicWidth(u)
				e.skolem++
				vals[i] = e.freshInput(fmt.Sprintf("ret_%s_%d", tag, e.skolem), w)
			}
		case *types.Slice:
			if eb, isB := u.Elem().Underlying().(*types.Basic); !isB || eb.Kind() != types.Uint8 {
				vals[i] = zero(t) // only byte slices get symbolic contents; other slices are empty
				continue
			}
			e.skolem++
			nm := fmt.Sprintf("ret_%s_%d", sanitize(tag), e.skolem)
			arr := Var("in_"+nm, Arr(8))
			ln := Var("in_"+nm+"_len", BV(64))
			e.addInputArr(inputArr{nm, arr, ln, 8})
			e.assume(st, Cmp("bvule", ln, c64(8)))
			id := e.newObj(st, &Obj{Kind: OArr, Typ: types.Typ[types.Uint8], Arr: MemBase(arr, 8), W: 8, Len: ln, MaxLen: 8, Name: nm, Tag: "stub:" + tag})
			vals[i] = SliceV{Obj: id, Off: c64(0), Len: ln, Cap: ln}
		case *types.Interface:
			if types.Identical(t, types.Universe.Lookup("error").Type()) {
				errIdx = append(errIdx, i)
				vals[i] = IfaceV{}
			} else {
				vals[i] = IfaceV{T: e.newProfile(fmt.Sprintf("ret%d", e.skolem)).Named}
				e.skolem++
			}
		default:
			vals[i] = zero(t)
		}
	}
	set := func(s *State, vs []Value) {
		f := s.frames[len(s.frames)-1]
		switch len(vs) {
		case 0:
			f.env[x] = nil
		case 1:
			f.env[x] = vs[0]
		default:
			f.env[x] = TupleV(vs)
		}
	}
	// error results: fork nil / non-nil
	for _, i := range errIdx {
		o := st.clone()
		vs := append([]Value(nil), vals...)
		vs[i] = e.newError(o, "stub-error:"+tag, nil)
		o.log = append(o.log, "  -> "+tag+" returns error")
		if n := len(o.stubs); n > 0 {
			o.stubs[n-1].failed = true
		}
		set(o, vs)
		e.extraForks = append(e.extraForks, o)
		e.Forks++
	}
	set(st, vals)
}

func (e *Engine) dumpLogs() {
	var keys []string
	for k := range e.pathLogs {
		keys = append(keys, k)
	}
	sort.Strings(keys)
	for _, k := range keys {
		fmt.Printf("--- %d path(s):\n%s\n", e.pathLogs[k], k)
	}
}

func logKey(st *State) string { return strings.Join(st.log, "\n") }
