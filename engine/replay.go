package main

import (
	"encoding/json"
	"fmt"
	"os"
	"os/exec"
	"path/filepath"
	"regexp"
	"strconv"
	"strings"
	"sync"
)

// ReplayFile is a counterexample (or path witness) in a form the native harness runtime can read.
type ReplayFile struct {
	Property   string            `json:"property"`
	Group      string            `json:"group"`
	Harness    string            `json:"harness"`
	Obligation string            `json:"obligation"`
	Kind       string            `json:"kind,omitempty"`
	Label      string            `json:"label,omitempty"`
	Inputs     map[string]uint64 `json:"inputs"`
	Expect     string            `json:"expect"`
	Tier       int               `json:"tier"` // 0 quick, 1 thorough: the harness bounds the inputs were found under
}

func expectOf(v ViolationJSON) string {
	switch v.Kind {
	case "assert":
		return "assert:" + v.Label
	case "alloc":
		return "alloc"
	case "ownership":
		return "race"
	default:
		return "panic:" + v.Kind
	}
}

type replayRunner struct {
	lg   *loadedGroup
	bin  string
	race bool
	mu  sync.Mutex
}

func goEnv() []string {
	return append(os.Environ(), "GOFLAGS=-mod=mod", "GOPROXY=off", "GOSUMDB=off", "GOTOOLCHAIN=local")
}

// buildReplayRunner compiles the package under test together with the harness files and the native
// runtime (through -overlay; nothing is written under the repository) into one test binary.
func buildReplayRunner(lg *loadedGroup, work string) (*replayRunner, error) {
	return buildReplayRunnerOpt(lg, work, false)
}

func buildReplayRunnerOpt(lg *loadedGroup, work string, race bool) (*replayRunner, error) {
	g := lg.g
	rt := filepath.Join(work, g.Name+"_rt_native.go")
	if err := renderTemplate(filepath.Join(verifDir, "harness", "rt", "native.go.tmpl"), rt, g.PkgName); err != nil {
		return nil, err
	}
	tst := filepath.Join(work, g.Name+"_replay_test.go")
	if err := renderTemplate(filepath.Join(verifDir, "harness", "rt", "replay_test.go.tmpl"), tst, g.PkgName); err != nil {
		return nil, err
	}
	var sb strings.Builder
	fmt.Fprintf(&sb, "//go:build verif\n\npackage %s\n\nvar verifHarnesses = map[string]func(){\n", g.PkgName)
	for _, h := range lg.harnesses {
		fmt.Fprintf(&sb, "\t%q: %s,\n", h, h)
	}
	sb.WriteString("}\n")
	reg := filepath.Join(work, g.Name+"_registry.go")
	os.WriteFile(reg, []byte(sb.String()), 0o644)
	repl := map[string]string{}
	for _, f := range lg.files {
		repl[filepath.Join(g.PkgDir, "zz_verif_"+filepath.Base(f))] = f
	}
	repl[filepath.Join(g.PkgDir, "zz_verif_rt.go")] = rt
	if g.ExtraRT != "" {
		x := filepath.Join(work, g.Name+"_rt_native_"+g.ExtraRT+".go")
		if err := renderTemplate(filepath.Join(verifDir, "harness", "rt", "native_"+g.ExtraRT+".go.tmpl"), x, g.PkgName); err != nil {
			return nil, err
		}
		repl[filepath.Join(g.PkgDir, "zz_verif_rt_"+g.ExtraRT+".go")] = x
	}
	repl[filepath.Join(g.PkgDir, "zz_verif_registry.go")] = reg
	repl[filepath.Join(g.PkgDir, "zz_verif_replay_test.go")] = tst
	ovb, _ := json.Marshal(map[string]interface{}{"Replace": repl})
	ov := filepath.Join(work, g.Name+"_overlay.json")
	os.WriteFile(ov, ovb, 0o644)
	bin := filepath.Join(work, g.Name+".replay.test")
	args := []string{"test", "-c", "-tags", "verif", "-vet=off", "-overlay", ov, "-o", bin}
	if race {
		bin = filepath.Join(work, g.Name+".replay.race.test")
		args = []string{"test", "-c", "-race", "-tags", "verif", "-vet=off", "-overlay", ov, "-o", bin}
	}
	cmd := exec.Command("go", append(args, g.Pkg)...)
	cmd.Dir = g.Dir
	cmd.Env = goEnv()
	out, err := cmd.CombinedOutput()
	if err != nil {
		return nil, fmt.Errorf("go test -c: %v: %s", err, string(out))
	}
	return &replayRunner{lg: lg, bin: bin, race: race}, nil
}

// run executes one replay in a fresh process under an address-space limit and returns its output.
func (r *replayRunner) run(harness, replayPath string) string {
	script := `ulimit -v 8388608; exec "$0" -test.run '^TestVerifReplay$' -test.count=1 -test.timeout 300s`
	if r.race { // the race detector reserves a large shadow address space
		script = `exec "$0" -test.run '^TestVerifReplay$' -test.count=1 -test.timeout 300s`
	}
	cmd := exec.Command("bash", "-c", script, r.bin)
	cmd.Env = append(os.Environ(), "VERIF_REPLAY="+replayPath, "VERIF_HARNESS="+harness, "VERIF_EXPECT="+replayExpect(replayPath))
	cmd.Dir = r.lg.g.PkgDir
	out, _ := cmd.CombinedOutput()
	return string(out)
}

var obsRe = regexp.MustCompile(`(?m)^VERIF-OBSERVE (\S+)=(\d+)$`)

func parseObserve(out string) map[string]uint64 {
	m := map[string]uint64{}
	for _, mm := range obsRe.FindAllStringSubmatch(out, -1) {
		v, _ := strconv.ParseUint(mm[2], 10, 64)
		m[mm[1]] = v
	}
	return m
}

// judgeReplay decides whether the native run shows the violation the solver found.
func judgeReplay(v ViolationJSON, out string) string {
	line := ""
	for _, l := range strings.Split(out, "\n") {
		if strings.HasPrefix(l, "VERIF-REPLAY: ") {
			line = strings.TrimPrefix(l, "VERIF-REPLAY: ")
		}
	}
	oom := strings.Contains(out, "fatal error: runtime: out of memory") || strings.Contains(out, "fatal error: out of memory") || strings.Contains(out, "cannot allocate memory")
	switch v.Kind {
	case "ownership":
		if strings.Contains(out, "WARNING: DATA RACE") {
			return "REPRODUCED data race reported by the Go race detector"
		}
		if strings.HasPrefix(line, "REPRODUCED") {
			return line
		}
	case "assert":
		if line == fmt.Sprintf("REPRODUCED assert %q", v.Label) {
			return line
		}
		// a different assertion of the same harness fails natively on the solver's input (e.g. the native
		// branch of the harness observes the real runtime where the symbolic branch reads a stub): the
		// property is violated on the real code all the same - unless it is the harness' own sanity check
		if strings.HasPrefix(line, "REPRODUCED assert") && !strings.Contains(line, "ORACLE-MISMATCH") && !strings.Contains(line, "ASSUMPTION-VIOLATED") {
			return line + " (native assertion differs from the symbolic one)"
		}
	case "alloc":
		if oom {
			return "REPRODUCED fatal out of memory"
		}
		if strings.HasPrefix(line, "REPRODUCED alloc") || strings.HasPrefix(line, "REPRODUCED panic") {
			return line
		}
	default:
		if oom && (v.Kind == "makeslice") {
			return "REPRODUCED fatal out of memory"
		}
		if strings.HasPrefix(line, "REPRODUCED panic") {
			return line
		}
	}
	if line == "" {
		return "NO-VERDICT " + lastLines(out, 3)
	}
	return "MISMATCH " + line
}

func cmdReplay(path string) int {
	b, err := os.ReadFile(path)
	if err != nil {
		fmt.Println(err)
		return 2
	}
	var rf ReplayFile
	if err := json.Unmarshal(b, &rf); err != nil {
		fmt.Println(err)
		return 2
	}
	g := groups[rf.Group]
	if g == nil {
		fmt.Println("unknown group", rf.Group)
		return 2
	}
	if g.Corpus {
		gc := *g
		g = &gc
	}
	workRoot := filepath.Join(verifDir, ".work")
	os.MkdirAll(workRoot, 0o755)
	work, _ := os.MkdirTemp(workRoot, "replay-")
	defer os.RemoveAll(work)
	if g.Corpus {
		if err := buildCorpus(g, work); err != nil {
			fmt.Println("corpus pipeline failed:", err)
			return 2
		}
	}
	lg, err := prepareGroup(g, work)
	if err != nil {
		fmt.Println(err)
		return 2
	}
	rr, err := buildReplayRunnerOpt(lg, work, rf.Kind == "ownership")
	if err != nil {
		fmt.Println(err)
		return 2
	}
	abs, _ := filepath.Abs(path)
	out := rr.run(rf.Harness, abs)
	fmt.Print(out)
	verdict := judgeReplay(ViolationJSON{Kind: rf.Kind, Label: rf.Label}, out)
	fmt.Println("verdict:", verdict)
	if strings.HasPrefix(verdict, "REPRODUCED") {
		return 1
	}
	return 0
}



// replayExpect reads the "expect" class of a replay file (the allocation measurement is only consulted when an
// allocation obligation is being replayed; it is too noisy to be a pass criterion for ordinary witnesses)
func replayExpect(path string) string {
	b, err := os.ReadFile(path)
	if err != nil {
		return ""
	}
	var rf ReplayFile
	if json.Unmarshal(b, &rf) != nil {
		return ""
	}
	if rf.Expect == "alloc" {
		return "alloc"
	}
	return ""
}
