package main

// SMT term layer: hash-consed DAG with light simplification and constant folding.
// Sorts: Bool, BV(w) with w<=64, Array(BV64 -> BV(w)).

import (
	"fmt"
	"math/bits"
	"strings"
)

type SortKind int

const (
	SBool SortKind = iota
	SBV
	SArr
)

type Sort struct {
	K SortKind
	W int // BV width, or element width for arrays
}

func (s Sort) String() string {
	switch s.K {
	case SBool:
		return "Bool"
	case SBV:
		return fmt.Sprintf("(_ BitVec %d)", s.W)
	default:
		return fmt.Sprintf("(Array (_ BitVec 64) (_ BitVec %d))", s.W)
	}
}

var BoolSort = Sort{K: SBool}

func BV(w int) Sort  { return Sort{K: SBV, W: w} }
func Arr(w int) Sort { return Sort{K: SArr, W: w} }

type Term struct {
	ID   int
	Op   string // "const","var","true","false", smt op names, "extract","zext","sext","constarr"
	S    Sort
	Args []*Term
	C    uint64 // const value, or extract hi<<8|lo, or ext amount
	Name string // var name
}

type TermStore struct {
	tab   map[string]*Term
	next  int
	vars  []*Term
	defed map[int]bool // emitted define-fun
	kbMemo map[int]kb
	selects []*Term // select-on-input-array terms seen by Emit since last reset
}

func NewTermStore() *TermStore {
	return &TermStore{tab: map[string]*Term{}, defed: map[int]bool{}, kbMemo: map[int]kb{}}
}

var TS = NewTermStore()

func (ts *TermStore) mk(op string, s Sort, c uint64, name string, args ...*Term) *Term {
	var sb strings.Builder
	sb.WriteString(op)
	sb.WriteByte('|')
	fmt.Fprintf(&sb, "%d.%d|%d|%s", s.K, s.W, c, name)
	for _, a := range args {
		fmt.Fprintf(&sb, "|%d", a.ID)
	}
	k := sb.String()
	if t, ok := ts.tab[k]; ok {
		return t
	}
	ts.next++
	t := &Term{ID: ts.next, Op: op, S: s, Args: args, C: c, Name: name}
	ts.tab[k] = t
	if op == "var" {
		ts.vars = append(ts.vars, t)
	}
	return t
}

func mask(w int) uint64 {
	if w >= 64 {
		return ^uint64(0)
	}
	return (uint64(1) << uint(w)) - 1
}

func Const(w int, v uint64) *Term { return TS.mk("const", BV(w), v&mask(w), "") }
func True() *Term                 { return TS.mk("true", BoolSort, 0, "") }
func False() *Term                { return TS.mk("false", BoolSort, 0, "") }
func BoolC(b bool) *Term {
	if b {
		return True()
	}
	return False()
}
func Var(name string, s Sort) *Term { return TS.mk("var", s, 0, name) }

func (t *Term) IsConst() bool { return t.Op == "const" }
func (t *Term) IsTrue() bool  { return t.Op == "true" }
func (t *Term) IsFalse() bool { return t.Op == "false" }
func (t *Term) IsBoolConst() bool {
	return t.Op == "true" || t.Op == "false"
}

func sx(w int, v uint64) int64 {
	if w >= 64 {
		return int64(v)
	}
	if v&(1<<uint(w-1)) != 0 {
		return int64(v | ^mask(w))
	}
	return int64(v)
}

// BinBV builds a binary bit-vector operation with folding.
func BinBV(op string, a, b *Term) *Term {
	if a.S != b.S {
		panic(fmt.Sprintf("sort mismatch %s: %v vs %v", op, a.S, b.S))
	}
	w := a.S.W
	if a.IsConst() && b.IsConst() {
		x, y := a.C, b.C
		var r uint64
		ok := true
		switch op {
		case "bvadd":
			r = x + y
		case "bvsub":
			r = x - y
		case "bvmul":
			r = x * y
		case "bvand":
			r = x & y
		case "bvor":
			r = x | y
		case "bvxor":
			r = x ^ y
		case "bvshl":
			if y >= uint64(w) {
				r = 0
			} else {
				r = x << y
			}
		case "bvlshr":
			if y >= uint64(w) {
				r = 0
			} else {
				r = x >> y
			}
		case "bvashr":
			s := sx(w, x)
			if y >= uint64(w) {
				if s < 0 {
					r = ^uint64(0)
				} else {
					r = 0
				}
			} else {
				r = uint64(s >> y)
			}
		case "bvudiv":
			if y == 0 {
				ok = false
			} else {
				r = x / y
			}
		case "bvurem":
			if y == 0 {
				ok = false
			} else {
				r = x % y
			}
		case "bvsdiv":
			if y == 0 {
				ok = false
			} else {
				sy := sx(w, y)
				sxv := sx(w, x)
				if sy == -1 {
					r = uint64(-sxv)
				} else {
					r = uint64(sxv / sy)
				}
			}
		case "bvsrem":
			if y == 0 {
				ok = false
			} else {
				sy := sx(w, y)
				sxv := sx(w, x)
				if sy == -1 {
					r = 0
				} else {
					r = uint64(sxv % sy)
				}
			}
		default:
			ok = false
		}
		if ok {
			return Const(w, r)
		}
	}
	// identities
	switch op {
	case "bvadd":
		if a.IsConst() && a.C == 0 {
			return b
		}
		if b.IsConst() && b.C == 0 {
			return a
		}
		// (x + c1) + c2
		if b.IsConst() && a.Op == "bvadd" && a.Args[1].IsConst() {
			return BinBV("bvadd", a.Args[0], Const(w, a.Args[1].C+b.C))
		}
		if a.IsConst() && !b.IsConst() {
			return BinBV("bvadd", b, a)
		}
	case "bvsub":
		if b.IsConst() && b.C == 0 {
			return a
		}
		if a == b {
			return Const(w, 0)
		}
		if b.IsConst() {
			return BinBV("bvadd", a, Const(w, -b.C))
		}
		// (x + y) - x = y
		if a.Op == "bvadd" && a.Args[0] == b {
			return a.Args[1]
		}
		if a.Op == "bvadd" && a.Args[1] == b {
			return a.Args[0]
		}
	case "bvmul":
		if (a.IsConst() && a.C == 0) || (b.IsConst() && b.C == 0) {
			return Const(w, 0)
		}
		if a.IsConst() && a.C == 1 {
			return b
		}
		if b.IsConst() && b.C == 1 {
			return a
		}
	case "bvand":
		if (a.IsConst() && a.C == 0) || (b.IsConst() && b.C == 0) {
			return Const(w, 0)
		}
		if a.IsConst() && a.C == mask(w) {
			return b
		}
		if b.IsConst() && b.C == mask(w) {
			return a
		}
		if a == b {
			return a
		}
	case "bvor":
		if a.IsConst() && a.C == 0 {
			return b
		}
		if b.IsConst() && b.C == 0 {
			return a
		}
		if a == b {
			return a
		}
	case "bvxor":
		if a.IsConst() && a.C == 0 {
			return b
		}
		if b.IsConst() && b.C == 0 {
			return a
		}
	case "bvshl", "bvlshr", "bvashr":
		if b.IsConst() && b.C == 0 {
			return a
		}
	}
	// division/remainder of a small non-negative value by a non-zero constant: compute in a narrow width
	// (bit-blasting a 64-bit divider for a 7-bit quotient is what makes size computations slow)
	if (op == "bvudiv" || op == "bvsdiv" || op == "bvurem" || op == "bvsrem") && b.IsConst() && b.C != 0 && w > 16 {
		sign := uint64(1) << uint(w-1)
		if b.C&sign == 0 && KnownBits(a).zero&sign != 0 {
			if m := umax(a); m < 1<<15 && b.C < 1<<15 {
				nop := "bvudiv"
				if op == "bvurem" || op == "bvsrem" {
					nop = "bvurem"
				}
				return ZExt(w, BinBV(nop, Extract(15, 0, a), Const(16, b.C)))
			}
		}
	}
	res := TS.mk(op, BV(w), 0, "", a, b)
	if k := KnownBits(res); k.zero|k.one == mask(w) {
		return Const(w, k.one)
	}
	if op == "bvand" && b.IsConst() {
		if ka := KnownBits(a); ka.zero|b.C == mask(w) { // bits cleared by the mask are already zero
			return a
		}
	}
	return res
}

func NotBV(a *Term) *Term {
	if a.IsConst() {
		return Const(a.S.W, ^a.C)
	}
	return TS.mk("bvnot", a.S, 0, "", a)
}

func NegBV(a *Term) *Term {
	if a.IsConst() {
		return Const(a.S.W, -a.C)
	}
	return TS.mk("bvneg", a.S, 0, "", a)
}

// Cmp builds =, bvult, bvule, bvslt, bvsle.
func Cmp(op string, a, b *Term) *Term {
	if a.S != b.S {
		panic(fmt.Sprintf("sort mismatch %s: %v vs %v", op, a.S, b.S))
	}
	if a.S.K == SBV && a.IsConst() && b.IsConst() {
		w := a.S.W
		switch op {
		case "=":
			return BoolC(a.C == b.C)
		case "bvult":
			return BoolC(a.C < b.C)
		case "bvule":
			return BoolC(a.C <= b.C)
		case "bvslt":
			return BoolC(sx(w, a.C) < sx(w, b.C))
		case "bvsle":
			return BoolC(sx(w, a.C) <= sx(w, b.C))
		}
	}
	if a == b {
		switch op {
		case "=", "bvule", "bvsle":
			return True()
		default:
			return False()
		}
	}
	if a.S.K == SBool && op == "=" {
		if a.IsBoolConst() {
			if a.IsTrue() {
				return b
			}
			return Not(b)
		}
		if b.IsBoolConst() {
			if b.IsTrue() {
				return a
			}
			return Not(a)
		}
	}
	if op == "=" && a.S.K == SBV {
		// (ite c k1 k2) = k
		if b.Op == "ite" && a.IsConst() {
			a, b = b, a
		}
		if a.Op == "ite" && b.IsConst() && a.Args[1].IsConst() && a.Args[2].IsConst() {
			t, f := a.Args[1].C == b.C, a.Args[2].C == b.C
			switch {
			case t && f:
				return True()
			case t:
				return a.Args[0]
			case f:
				return Not(a.Args[0])
			default:
				return False()
			}
		}
	}
	if a.S.K == SBV {
		ka, kbb := KnownBits(a), KnownBits(b)
		switch op {
		case "=":
			if ka.zero&kbb.one != 0 || ka.one&kbb.zero != 0 {
				return False()
			}
		case "bvult":
			if umax(a) < umin(b) {
				return True()
			}
			if umin(a) >= umax(b) {
				return False()
			}
		case "bvule":
			if umax(a) <= umin(b) {
				return True()
			}
			if umin(a) > umax(b) {
				return False()
			}
		case "bvslt", "bvsle":
			// both known non-negative: same as unsigned
			sb := uint64(1) << uint(a.S.W-1)
			if ka.zero&sb != 0 && kbb.zero&sb != 0 {
				if op == "bvslt" {
					return Cmp("bvult", a, b)
				}
				return Cmp("bvule", a, b)
			}
		}
	}
	if op == "bvult" && b.IsConst() && b.C == 0 {
		return False()
	}
	if op == "bvule" && a.IsConst() && a.C == 0 {
		return True()
	}
	return TS.mk(op, BoolSort, 0, "", a, b)
}

func Eq(a, b *Term) *Term { return Cmp("=", a, b) }

func Not(a *Term) *Term {
	if a.IsTrue() {
		return False()
	}
	if a.IsFalse() {
		return True()
	}
	if a.Op == "not" {
		return a.Args[0]
	}
	return TS.mk("not", BoolSort, 0, "", a)
}

func And(xs ...*Term) *Term {
	var out []*Term
	for _, x := range xs {
		if x.IsFalse() {
			return False()
		}
		if x.IsTrue() {
			continue
		}
		out = append(out, x)
	}
	switch len(out) {
	case 0:
		return True()
	case 1:
		return out[0]
	}
	return TS.mk("and", BoolSort, 0, "", out...)
}

func Or(xs ...*Term) *Term {
	var out []*Term
	for _, x := range xs {
		if x.IsTrue() {
			return True()
		}
		if x.IsFalse() {
			continue
		}
		out = append(out, x)
	}
	switch len(out) {
	case 0:
		return False()
	case 1:
		return out[0]
	}
	return TS.mk("or", BoolSort, 0, "", out...)
}

func Implies(a, b *Term) *Term { return Or(Not(a), b) }

func Ite(c, a, b *Term) *Term {
	if c.IsTrue() {
		return a
	}
	if c.IsFalse() {
		return b
	}
	if a == b {
		return a
	}
	if a.S.K == SBool {
		if a.IsTrue() && b.IsFalse() {
			return c
		}
		if a.IsFalse() && b.IsTrue() {
			return Not(c)
		}
	}
	return TS.mk("ite", a.S, 0, "", c, a, b)
}

func Extract(hi, lo int, a *Term) *Term {
	w := hi - lo + 1
	if lo == 0 && w == a.S.W {
		return a
	}
	if a.IsConst() {
		return Const(w, a.C>>uint(lo))
	}
	if a.Op == "zext" && hi < a.Args[0].S.W {
		return Extract(hi, lo, a.Args[0])
	}
	if a.Op == "sext" && hi < a.Args[0].S.W {
		return Extract(hi, lo, a.Args[0])
	}
	return TS.mk("extract", BV(w), uint64(hi)<<8|uint64(lo), "", a)
}

func ZExt(to int, a *Term) *Term {
	if to == a.S.W {
		return a
	}
	if to < a.S.W {
		return Extract(to-1, 0, a)
	}
	if a.IsConst() {
		return Const(to, a.C)
	}
	if a.Op == "zext" {
		return ZExt(to, a.Args[0])
	}
	return TS.mk("zext", BV(to), uint64(to-a.S.W), "", a)
}

func SExt(to int, a *Term) *Term {
	if to == a.S.W {
		return a
	}
	if to < a.S.W {
		return Extract(to-1, 0, a)
	}
	if a.IsConst() {
		return Const(to, uint64(sx(a.S.W, a.C)))
	}
	return TS.mk("sext", BV(to), uint64(to-a.S.W), "", a)
}

// Arrays
func ConstArr(w int, v uint64) *Term { return TS.mk("constarr", Arr(w), v&mask(w), "") }

func Select(arr, idx *Term) *Term {
	if idx.S.W != 64 {
		panic("select index must be bv64")
	}
	// read over write
	for arr.Op == "store" {
		i := arr.Args[1]
		if i == idx {
			return arr.Args[2]
		}
		if i.IsConst() && idx.IsConst() {
			arr = arr.Args[0]
			continue
		}
		break
	}
	if arr.Op == "constarr" {
		return Const(arr.S.W, arr.C)
	}
	return TS.mk("select", BV(arr.S.W), 0, "", arr, idx)
}

func Store(arr, idx, v *Term) *Term {
	if v.S.W != arr.S.W {
		panic(fmt.Sprintf("store width mismatch %d vs %d", v.S.W, arr.S.W))
	}
	if arr.Op == "store" && arr.Args[1] == idx {
		arr = arr.Args[0]
	}
	return TS.mk("store", arr.S, 0, "", arr, idx, v)
}

// ---- printing ----

func (t *Term) head() string {
	switch t.Op {
	case "const":
		return fmt.Sprintf("(_ bv%d %d)", t.C, t.S.W)
	case "true", "false":
		return t.Op
	case "var":
		return t.Name
	case "constarr":
		return fmt.Sprintf("((as const %s) (_ bv%d %d))", t.S, t.C, t.S.W)
	}
	return ""
}

func (t *Term) ref() string {
	if h := t.head(); h != "" {
		return h
	}
	return fmt.Sprintf("t%d", t.ID)
}

// Emit writes define-fun lines for t and its sub-DAG (once each) and returns the reference name.
func (ts *TermStore) Emit(sb *strings.Builder, t *Term) string {
	if t.head() != "" {
		if t.Op == "var" && !ts.defed[t.ID] {
			ts.defed[t.ID] = true
			fmt.Fprintf(sb, "(declare-const %s %s)\n", t.Name, t.S)
		}
		return t.ref()
	}
	if ts.defed[t.ID] {
		return t.ref()
	}
	// iterative post-order to avoid deep recursion
	type fr struct {
		t *Term
		i int
	}
	st := []fr{{t, 0}}
	for len(st) > 0 {
		f := &st[len(st)-1]
		if f.i < len(f.t.Args) {
			a := f.t.Args[f.i]
			f.i++
			if a.head() != "" {
				if a.Op == "var" && !ts.defed[a.ID] {
					ts.defed[a.ID] = true
					fmt.Fprintf(sb, "(declare-const %s %s)\n", a.Name, a.S)
				}
				continue
			}
			if !ts.defed[a.ID] {
				st = append(st, fr{a, 0})
			}
			continue
		}
		x := f.t
		st = st[:len(st)-1]
		if ts.defed[x.ID] {
			continue
		}
		ts.defed[x.ID] = true
		if x.Op == "select" && x.Args[0].Op == "var" {
			ts.selects = append(ts.selects, x)
		}
		var e strings.Builder
		switch x.Op {
		case "extract":
			fmt.Fprintf(&e, "((_ extract %d %d) %s)", x.C>>8, x.C&0xff, x.Args[0].ref())
		case "zext":
			fmt.Fprintf(&e, "((_ zero_extend %d) %s)", x.C, x.Args[0].ref())
		case "sext":
			fmt.Fprintf(&e, "((_ sign_extend %d) %s)", x.C, x.Args[0].ref())
		default:
			e.WriteByte('(')
			e.WriteString(x.Op)
			for _, a := range x.Args {
				e.WriteByte(' ')
				e.WriteString(a.ref())
			}
			e.WriteByte(')')
		}
		fmt.Fprintf(sb, "(define-fun t%d () %s %s)\n", x.ID, x.S, e.String())
	}
	return t.ref()
}

// Eval evaluates t under a model (var name -> value; arrays: name -> map idx->val with default).
type ArrModel struct {
	Partial bool
	Def uint64
	M   map[uint64]uint64
}
type Model struct {
	BV   map[string]uint64
	B    map[string]bool
	Arr  map[string]*ArrModel
	memo map[int]uint64
}

func (m *Model) evalArr(t *Term) *ArrModel {
	switch t.Op {
	case "var":
		if a, ok := m.Arr[t.Name]; ok {
			return a
		}
		return &ArrModel{M: map[uint64]uint64{}}
	case "constarr":
		return &ArrModel{Def: t.C, M: map[uint64]uint64{}}
	case "store":
		base := m.evalArr(t.Args[0])
		n := &ArrModel{Def: base.Def, M: map[uint64]uint64{}, Partial: base.Partial}
		for k, v := range base.M {
			n.M[k] = v
		}
		n.M[m.Eval(t.Args[1])] = m.Eval(t.Args[2])
		return n
	case "ite":
		if m.Eval(t.Args[0]) != 0 {
			return m.evalArr(t.Args[1])
		}
		return m.evalArr(t.Args[2])
	}
	panic("evalArr: " + t.Op)
}

func (m *Model) Eval(t *Term) uint64 {
	if t.Op == "const" {
		return t.C
	}
	if m.memo == nil {
		m.memo = map[int]uint64{}
	}
	if v, ok := m.memo[t.ID]; ok {
		return v
	}
	v := m.eval1(t)
	m.memo[t.ID] = v
	return v
}

func (m *Model) eval1(t *Term) uint64 {
	w := t.S.W
	b2u := func(b bool) uint64 {
		if b {
			return 1
		}
		return 0
	}
	switch t.Op {
	case "const":
		return t.C
	case "true":
		return 1
	case "false":
		return 0
	case "var":
		if t.S.K == SBool {
			return b2u(m.B[t.Name])
		}
		return m.BV[t.Name] & mask(w)
	case "not":
		return 1 - m.Eval(t.Args[0])
	case "and":
		for _, a := range t.Args {
			if m.Eval(a) == 0 {
				return 0
			}
		}
		return 1
	case "or":
		for _, a := range t.Args {
			if m.Eval(a) != 0 {
				return 1
			}
		}
		return 0
	case "ite":
		if m.Eval(t.Args[0]) != 0 {
			return m.Eval(t.Args[1])
		}
		return m.Eval(t.Args[2])
	case "=":
		if t.Args[0].S.K == SArr {
			panic("array equality eval unsupported")
		}
		return b2u(m.Eval(t.Args[0]) == m.Eval(t.Args[1]))
	case "bvult":
		return b2u(m.Eval(t.Args[0]) < m.Eval(t.Args[1]))
	case "bvule":
		return b2u(m.Eval(t.Args[0]) <= m.Eval(t.Args[1]))
	case "bvslt":
		aw := t.Args[0].S.W
		return b2u(sx(aw, m.Eval(t.Args[0])) < sx(aw, m.Eval(t.Args[1])))
	case "bvsle":
		aw := t.Args[0].S.W
		return b2u(sx(aw, m.Eval(t.Args[0])) <= sx(aw, m.Eval(t.Args[1])))
	case "extract":
		return (m.Eval(t.Args[0]) >> (t.C & 0xff)) & mask(w)
	case "zext":
		return m.Eval(t.Args[0])
	case "sext":
		return uint64(sx(t.Args[0].S.W, m.Eval(t.Args[0]))) & mask(w)
	case "bvnot":
		return ^m.Eval(t.Args[0]) & mask(w)
	case "bvneg":
		return -m.Eval(t.Args[0]) & mask(w)
	case "select":
		a := m.evalArr(t.Args[0])
		i := m.Eval(t.Args[1])
		if v, ok := a.M[i]; ok {
			return v
		}
		if a.Partial {
			panic("model does not define this array cell")
		}
		return a.Def
	}
	if len(t.Args) == 2 && t.S.K == SBV {
		a, b := Const(w, m.Eval(t.Args[0])), Const(w, m.Eval(t.Args[1]))
		r := BinBV(t.Op, a, b)
		if r.IsConst() {
			return r.C
		}
		// division by zero per SMT-LIB
		switch t.Op {
		case "bvudiv":
			return mask(w)
		case "bvurem":
			return a.C
		}
	}
	panic("Eval: unsupported op " + t.Op)
}


// ---- known bits ----

type kb struct{ zero, one uint64 } // bits known to be 0 / known to be 1


func KnownBits(t *Term) kb {
	if t.S.K != SBV {
		return kb{}
	}
	if r, ok := TS.kbMemo[t.ID]; ok {
		return r
	}
	w := t.S.W
	m := mask(w)
	var r kb
	switch t.Op {
	case "const":
		r = kb{zero: ^t.C & m, one: t.C}
	case "bvand":
		a, b := KnownBits(t.Args[0]), KnownBits(t.Args[1])
		r = kb{zero: a.zero | b.zero, one: a.one & b.one}
	case "bvor":
		a, b := KnownBits(t.Args[0]), KnownBits(t.Args[1])
		r = kb{zero: a.zero & b.zero, one: a.one | b.one}
	case "bvxor":
		a, b := KnownBits(t.Args[0]), KnownBits(t.Args[1])
		r = kb{zero: (a.zero & b.zero) | (a.one & b.one), one: (a.zero & b.one) | (a.one & b.zero)}
	case "bvnot":
		a := KnownBits(t.Args[0])
		r = kb{zero: a.one, one: a.zero}
	case "bvshl":
		if t.Args[1].IsConst() && t.Args[1].C < uint64(w) {
			a := KnownBits(t.Args[0])
			sh := t.Args[1].C
			r = kb{zero: (a.zero<<sh | (uint64(1)<<sh - 1)) & m, one: (a.one << sh) & m}
		}
	case "bvlshr":
		if t.Args[1].IsConst() && t.Args[1].C < uint64(w) {
			a := KnownBits(t.Args[0])
			sh := t.Args[1].C
			hi := m &^ (m >> sh)
			r = kb{zero: (a.zero >> sh) | hi, one: a.one >> sh}
		}
	case "zext":
		a := KnownBits(t.Args[0])
		r = kb{zero: a.zero | (m &^ mask(t.Args[0].S.W)), one: a.one}
	case "extract":
		a := KnownBits(t.Args[0])
		lo := t.C & 0xff
		r = kb{zero: (a.zero >> lo) & m, one: (a.one >> lo) & m}
	case "ite":
		a, b := KnownBits(t.Args[1]), KnownBits(t.Args[2])
		r = kb{zero: a.zero & b.zero, one: a.one & b.one}
	case "bvadd":
		// low bits: if both have k known-zero trailing bits so does the sum
		a, b := KnownBits(t.Args[0]), KnownBits(t.Args[1])
		tz := bits.TrailingZeros64(^a.zero)
		if z := bits.TrailingZeros64(^b.zero); z < tz {
			tz = z
		}
		if tz > w {
			tz = w
		}
		r = kb{zero: mask(tz)}
		// upper bound: if both operands have leading known zeros, sum has one fewer
		la, lb := bits.LeadingZeros64(^a.zero&m), bits.LeadingZeros64(^b.zero&m)
		l := la
		if lb < l {
			l = lb
		}
		l -= 64 - w
		if l > 1 {
			r.zero |= m &^ mask(w-(l-1))
		}
	}
	r.zero &= m
	r.one &= m
	TS.kbMemo[t.ID] = r
	return r
}

func umin(t *Term) uint64 { return KnownBits(t).one }
func umax(t *Term) uint64 { return ^KnownBits(t).zero & mask(t.S.W) }

// selectsIn returns the select-on-input-array terms and the variables in the DAG of roots.
func (ts *TermStore) selectsIn(roots []*Term) ([]*Term, map[*Term]bool) {
	seen := map[int]bool{}
	vars := map[*Term]bool{}
	var out []*Term
	var st []*Term
	st = append(st, roots...)
	for len(st) > 0 {
		t := st[len(st)-1]
		st = st[:len(st)-1]
		if seen[t.ID] {
			continue
		}
		seen[t.ID] = true
		if t.Op == "select" && t.Args[0].Op == "var" {
			out = append(out, t)
		}
		if t.Op == "var" {
			vars[t] = true
		}
		st = append(st, t.Args...)
	}
	return out, vars
}
