package main

import (
	"fmt"
	"go/types"

	"golang.org/x/tools/go/ssa"
)

// ---- runtime values ----

type Value interface{}

type PElem struct {
	Field int   // struct field index (when Idx == nil)
	Idx   *Term // array/slice element index (BV64), may be symbolic for OArr objects
}

type PtrV struct {
	Obj  int // 0 = nil
	Path []PElem
}

type SliceV struct {
	Obj           int // 0 = nil slice
	Off, Len, Cap *Term
}

type StringV struct {
	Obj      int // 0 = empty
	Off, Len *Term
}

type StructV struct{ Fields []Value }
type ArrayV struct{ Elems []Value }
type TupleV []Value

type IfaceV struct {
	T types.Type // nil = nil interface
	V Value
}

type FuncV struct {
	Fn   *ssa.Function
	Bind []Value
	Blt  *ssa.Builtin
}

type MapV struct{ Obj int }

type MapEntry struct {
	K, V Value
}

// ---- heap objects ----

type ObjKind int

const (
	OCell ObjKind = iota // single value of type Typ
	OArr                 // SMT array of scalar elements of type Typ
	OVec                 // Go-side vector of values of type Typ
	OMap                 // association list
)

type Obj struct {
	ID     int
	Kind   ObjKind
	Typ    types.Type
	Val    Value      // OCell
	Arr    *Mem       // OArr
	W      int        // OArr element width
	Len    *Term      // OArr/OVec element count
	MaxLen int        // static bound on Len (for bounded expansions)
	Vec    []Value    // OVec
	Ents   []MapEntry // OMap
	Name   string
	Tag    string // provenance tag (e.g. "input:p")
	Const  []byte // immutable constant contents (const strings)
}

func (o *Obj) clone() *Obj {
	n := *o
	if o.Vec != nil {
		n.Vec = append([]Value(nil), o.Vec...)
	}
	if o.Ents != nil {
		n.Ents = append([]MapEntry(nil), o.Ents...)
	}
	return &n
}

var c64 = func(v uint64) *Term { return Const(64, v) }

// ---- type helpers ----

func basicWidth(b *types.Basic) (w int, signed bool, ok bool) {
	switch b.Kind() {
	case types.Int8:
		return 8, true, true
	case types.Int16:
		return 16, true, true
	case types.Int32, types.UntypedRune:
		return 32, true, true
	case types.Int64, types.Int, types.UntypedInt:
		return 64, true, true
	case types.Uint8:
		return 8, false, true
	case types.Uint16:
		return 16, false, true
	case types.Uint32:
		return 32, false, true
	case types.Uint64, types.Uint, types.Uintptr:
		return 64, false, true
	case types.Float32:
		return 32, false, true
	case types.Float64, types.UntypedFloat:
		return 64, false, true
	}
	return 0, false, false
}

func isFloat(t types.Type) bool {
	b, ok := t.Underlying().(*types.Basic)
	return ok && b.Info()&types.IsFloat != 0
}

func isBool(t types.Type) bool {
	b, ok := t.Underlying().(*types.Basic)
	return ok && b.Info()&types.IsBoolean != 0
}

func isString(t types.Type) bool {
	b, ok := t.Underlying().(*types.Basic)
	return ok && b.Info()&types.IsString != 0
}

// scalarWidth returns the SMT-array element width for scalar element types (bool stored as 8 bits).
func scalarWidth(t types.Type) (int, bool) {
	b, ok := t.Underlying().(*types.Basic)
	if !ok {
		return 0, false
	}
	if b.Info()&types.IsBoolean != 0 {
		return 8, true
	}
	if w, _, ok := basicWidth(b); ok {
		return w, true
	}
	return 0, false
}

func intInfo(t types.Type) (w int, signed bool) {
	b, ok := t.Underlying().(*types.Basic)
	if !ok {
		panic(fmt.Sprintf("intInfo: not basic: %v", t))
	}
	w, signed, ok = basicWidth(b)
	if !ok {
		panic(fmt.Sprintf("intInfo: not int: %v", t))
	}
	return
}

func zero(t types.Type) Value {
	switch u := t.Underlying().(type) {
	case *types.Basic:
		if u.Info()&types.IsBoolean != 0 {
			return False()
		}
		if u.Info()&types.IsString != 0 {
			return StringV{Off: c64(0), Len: c64(0)}
		}
		if u.Kind() == types.UnsafePointer {
			return PtrV{}
		}
		if u.Kind() == types.UntypedNil {
			return nil
		}
		w, _, ok := basicWidth(u)
		if !ok {
			panic(fmt.Sprintf("zero: unsupported basic %v", u))
		}
		return Const(w, 0)
	case *types.Pointer:
		return PtrV{}
	case *types.Slice:
		return SliceV{Off: c64(0), Len: c64(0), Cap: c64(0)}
	case *types.Struct:
		f := make([]Value, u.NumFields())
		for i := range f {
			f[i] = zero(u.Field(i).Type())
		}
		return StructV{Fields: f}
	case *types.Array:
		e := make([]Value, u.Len())
		for i := range e {
			e[i] = zero(u.Elem())
		}
		return ArrayV{Elems: e}
	case *types.Interface:
		return IfaceV{}
	case *types.Signature:
		return FuncV{}
	case *types.Map:
		return MapV{}
	case *types.Chan:
		return PtrV{}
	case *types.Tuple:
		tv := make(TupleV, u.Len())
		for i := range tv {
			tv[i] = zero(u.At(i).Type())
		}
		return tv
	}
	panic(fmt.Sprintf("zero: unsupported type %v (%T)", t, t.Underlying()))
}

func deref(t types.Type) types.Type {
	if p, ok := t.Underlying().(*types.Pointer); ok {
		return p.Elem()
	}
	panic(fmt.Sprintf("deref: not a pointer: %v", t))
}
