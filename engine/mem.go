package main

// Memory expressions for the contents of scalar arrays ([]byte, string, []intN, ...).
// Reads are resolved structurally into select-on-base terms and ite's; no SMT `store` is emitted and
// range copies with a symbolic length need neither unrolling nor quantifiers (read-over-copy).

type MemKind int

const (
	MZero MemKind = iota // all elements zero
	MBase                // uninterpreted input array (Arr is an SMT array variable)
	MStore
	MCopy
	MIte // Cond ? Prev : Src
)

type Mem struct {
	Kind MemKind
	W    int
	Arr  *Term // MBase
	Prev *Mem  // MStore, MCopy: contents before the write
	Idx  *Term // MStore
	Val  *Term // MStore
	Src  *Mem  // MCopy
	DOff *Term // MCopy: destination offset
	SOff *Term // MCopy: source offset
	N    *Term // MCopy: element count
	Cond *Term // MIte
	memo map[*Term]*Term
}

func MemZero(w int) *Mem            { return &Mem{Kind: MZero, W: w} }
func MemBase(arr *Term, w int) *Mem { return &Mem{Kind: MBase, W: w, Arr: arr} }

func (m *Mem) Write(idx, v *Term) *Mem {
	if v.S.W != m.W {
		panic("Mem.Write width mismatch")
	}
	if m.Kind == MStore && m.Idx == idx {
		return &Mem{Kind: MStore, W: m.W, Prev: m.Prev, Idx: idx, Val: v}
	}
	return &Mem{Kind: MStore, W: m.W, Prev: m, Idx: idx, Val: v}
}

func MemCopy(dst *Mem, doff *Term, src *Mem, soff, n *Term) *Mem {
	if n.IsConst() && n.C == 0 {
		return dst
	}
	return &Mem{Kind: MCopy, W: dst.W, Prev: dst, Src: src, DOff: doff, SOff: soff, N: n}
}

func (m *Mem) Read(idx *Term) *Term {
	if m.Kind == MZero || m.Kind == MBase {
		return m.read(idx)
	}
	if m.memo == nil {
		m.memo = map[*Term]*Term{}
	}
	if r, ok := m.memo[idx]; ok {
		return r
	}
	r := m.read(idx)
	m.memo[idx] = r
	return r
}

func (m *Mem) read(idx *Term) *Term {
	switch m.Kind {
	case MZero:
		return Const(m.W, 0)
	case MBase:
		return Select(m.Arr, idx)
	case MStore:
		eq := Eq(idx, m.Idx)
		if eq.IsTrue() {
			return m.Val
		}
		if eq.IsFalse() {
			return m.Prev.Read(idx)
		}
		return Ite(eq, m.Val, m.Prev.Read(idx))
	case MCopy:
		// in range: doff <= idx < doff+n   (all quantities are far below 2^63, no wrap)
		rel := BinBV("bvsub", idx, m.DOff)
		in := And(Cmp("bvule", m.DOff, idx), Cmp("bvult", rel, m.N))
		if in.IsTrue() {
			return m.Src.Read(BinBV("bvadd", rel, m.SOff))
		}
		if in.IsFalse() {
			return m.Prev.Read(idx)
		}
		return Ite(in, m.Src.Read(BinBV("bvadd", rel, m.SOff)), m.Prev.Read(idx))
	case MIte:
		return Ite(m.Cond, m.Prev.Read(idx), m.Src.Read(idx))
	}
	panic("Mem.Read: bad kind")
}
