package main

// If-conversion of simple diamonds and triangles: when both sides of a symbolic branch are
// straight-line blocks without calls that rejoin immediately, both are executed and the states are
// merged with ite-terms instead of forking (e.g. `if v { p[i] = 1 } else { p[i] = 0 }` inside a loop).

import (
	"go/types"

	"golang.org/x/tools/go/ssa"
)

func simpleBlock(b *ssa.BasicBlock) bool {
	if len(b.Preds) != 1 || len(b.Succs) != 1 {
		return false
	}
	for i, in := range b.Instrs {
		switch in.(type) {
		case *ssa.BinOp, *ssa.UnOp, *ssa.Store, *ssa.FieldAddr, *ssa.Field, *ssa.IndexAddr, *ssa.Index,
			*ssa.Slice, *ssa.Convert, *ssa.ChangeType, *ssa.Extract, *ssa.DebugRef:
		case *ssa.Jump:
			if i != len(b.Instrs)-1 {
				return false
			}
		default:
			return false
		}
	}
	return true
}

// diamondJoin returns the join block when (b0,b1) form a diamond or a triangle below the branching block.
func diamondJoin(b0, b1 *ssa.BasicBlock) (*ssa.BasicBlock, bool) {
	s0, s1 := simpleBlock(b0), simpleBlock(b1)
	switch {
	case s0 && s1 && b0.Succs[0] == b1.Succs[0] && b0 != b1:
		return b0.Succs[0], true
	case s0 && b0.Succs[0] == b1:
		return b1, true
	case s1 && b1.Succs[0] == b0:
		return b0, true
	}
	return nil, false
}

func (e *Engine) tryDiamond(st *State, f *Frame, c *Term) bool {
	if e.NoDiamond {
		return false
	}
	b0, b1 := f.block.Succs[0], f.block.Succs[1]
	join, ok := diamondJoin(b0, b1)
	if !ok {
		return false
	}
	// values of type int/uint are typically indices, lengths and loop bounds: merging them into
	// ite-terms (e.g. the bounds of a binary search) makes later indexing symbolic, so such diamonds fork
	for _, in := range join.Instrs {
		p, isPhi := in.(*ssa.Phi)
		if !isPhi {
			break
		}
		if b, isBasic := p.Type().Underlying().(*types.Basic); isBasic {
			switch b.Kind() {
			case types.Int, types.Uint, types.Uintptr, types.Int64, types.Uint64:
				return false
			}
		}
	}
	e.flush(st)
	head := f.block
	run := func(b *ssa.BasicBlock, cond *Term) (s *State, last *ssa.BasicBlock, good bool) {
		defer func() {
			if r := recover(); r != nil {
				if _, isEnd := r.(pathEnd); isEnd {
					s, good = nil, false
					return
				}
				panic(r)
			}
		}()
		s = st.clone()
		s.pc = append(s.pc, cond)
		s.model = nil
		if b == join {
			return s, head, true
		}
		fr := s.frames[len(s.frames)-1]
		fr.prev = fr.block
		fr.block = b
		fr.ip = 0
		for _, in := range b.Instrs[:len(b.Instrs)-1] {
			e.Steps++
			if fk := e.step(s, fr, in); fk != nil {
				return nil, nil, false
			}
		}
		e.flush(s)
		return s, b, true
	}
	sA, lastA, okA := run(b0, c)
	if !okA {
		return false
	}
	sB, lastB, okB := run(b1, Not(c))
	if !okB {
		return false
	}
	// merge heaps
	merged := map[int]*Obj{}
	for id, oA := range sA.heap {
		oB, inB := sB.heap[id]
		switch {
		case !inB || oA == oB:
			merged[id] = oA
		default:
			mo, ok := mergeObj(c, oA, oB)
			if !ok {
				return false
			}
			merged[id] = mo
		}
	}
	for id, oB := range sB.heap {
		if _, inA := sA.heap[id]; !inA {
			merged[id] = oB
		}
	}
	// phis of the join block
	fA, fB := sA.frames[len(sA.frames)-1], sB.frames[len(sB.frames)-1]
	var phis []*ssa.Phi
	for _, in := range join.Instrs {
		if p, ok := in.(*ssa.Phi); ok {
			phis = append(phis, p)
		} else {
			break
		}
	}
	iA, iB := -1, -1
	for i, p := range join.Preds {
		if p == lastA {
			iA = i
		}
		if p == lastB {
			iB = i
		}
	}
	if iA < 0 || iB < 0 {
		return false
	}
	vals := make([]Value, len(phis))
	for i, p := range phis {
		va, vb := e.val(sA, fA, p.Edges[iA]), e.val(sB, fB, p.Edges[iB])
		mv, ok := mergeVal(c, va, vb)
		if !ok {
			return false
		}
		vals[i] = mv
	}
	// commit
	st.heap = merged
	for k, v := range fA.env {
		f.env[k] = v
	}
	for k, v := range fB.env {
		f.env[k] = v
	}
	for i, p := range phis {
		f.env[p] = vals[i]
	}
	for g, id := range sA.globals {
		st.globals[g] = id
	}
	for g, id := range sB.globals {
		st.globals[g] = id
	}
	f.prev = lastA
	f.block = join
	f.ip = len(phis)
	f.visits[join.Index]++
	e.Diamonds++
	return true
}

func mergeObj(c *Term, a, b *Obj) (*Obj, bool) {
	if a.Kind != b.Kind {
		return nil, false
	}
	n := a.clone()
	switch a.Kind {
	case OArr:
		if a.Len != b.Len || a.W != b.W {
			return nil, false
		}
		n.Arr = mergeMem(c, a.Arr, b.Arr)
	case OCell:
		v, ok := mergeVal(c, a.Val, b.Val)
		if !ok {
			return nil, false
		}
		n.Val = v
	case OVec:
		if len(a.Vec) != len(b.Vec) {
			return nil, false
		}
		for i := range a.Vec {
			v, ok := mergeVal(c, a.Vec[i], b.Vec[i])
			if !ok {
				return nil, false
			}
			n.Vec[i] = v
		}
	default:
		return nil, false
	}
	return n, true
}

func mergeVal(c *Term, a, b Value) (Value, bool) {
	switch av := a.(type) {
	case nil:
		return nil, b == nil
	case *Term:
		bv, ok := b.(*Term)
		if !ok || av.S != bv.S {
			return nil, false
		}
		return Ite(c, av, bv), true
	case StructV:
		bv, ok := b.(StructV)
		if !ok || len(av.Fields) != len(bv.Fields) {
			return nil, false
		}
		out := make([]Value, len(av.Fields))
		for i := range out {
			v, ok := mergeVal(c, av.Fields[i], bv.Fields[i])
			if !ok {
				return nil, false
			}
			out[i] = v
		}
		return StructV{Fields: out}, true
	case ArrayV:
		bv, ok := b.(ArrayV)
		if !ok || len(av.Elems) != len(bv.Elems) {
			return nil, false
		}
		out := make([]Value, len(av.Elems))
		for i := range out {
			v, ok := mergeVal(c, av.Elems[i], bv.Elems[i])
			if !ok {
				return nil, false
			}
			out[i] = v
		}
		return ArrayV{Elems: out}, true
	case TupleV:
		bv, ok := b.(TupleV)
		if !ok || len(av) != len(bv) {
			return nil, false
		}
		out := make(TupleV, len(av))
		for i := range out {
			v, ok := mergeVal(c, av[i], bv[i])
			if !ok {
				return nil, false
			}
			out[i] = v
		}
		return out, true
	case SliceV:
		bv, ok := b.(SliceV)
		if !ok || av.Obj != bv.Obj {
			return nil, false
		}
		return SliceV{Obj: av.Obj, Off: Ite(c, av.Off, bv.Off), Len: Ite(c, av.Len, bv.Len), Cap: Ite(c, av.Cap, bv.Cap)}, true
	case StringV:
		bv, ok := b.(StringV)
		if !ok || av.Obj != bv.Obj {
			return nil, false
		}
		return StringV{Obj: av.Obj, Off: Ite(c, av.Off, bv.Off), Len: Ite(c, av.Len, bv.Len)}, true
	case PtrV:
		bv, ok := b.(PtrV)
		if !ok || !ptrEq(av, bv) {
			return nil, false
		}
		return av, true
	case MapV:
		bv, ok := b.(MapV)
		return av, ok && av.Obj == bv.Obj
	case IfaceV:
		bv, ok := b.(IfaceV)
		if !ok {
			return nil, false
		}
		if av.T == nil && bv.T == nil {
			return av, true
		}
		if av.T == nil || bv.T == nil || av.T != bv.T {
			return nil, false
		}
		v, ok := mergeVal(c, av.V, bv.V)
		if !ok {
			return nil, false
		}
		return IfaceV{T: av.T, V: v}, true
	case FuncV:
		bv, ok := b.(FuncV)
		return av, ok && av.Fn == bv.Fn && av.Blt == bv.Blt && len(av.Bind) == 0 && len(bv.Bind) == 0
	}
	return nil, false
}

// mergeMem joins two memory expressions; stores to the same cell on both sides become one store of an
// ite-value, so that repeated diamonds in a loop keep the store chain linear.
func mergeMem(c *Term, a, b *Mem) *Mem {
	if a == b {
		return a
	}
	if a.Kind == MStore && b.Kind == MStore && a.Idx == b.Idx {
		return mergeMem(c, a.Prev, b.Prev).Write(a.Idx, Ite(c, a.Val, b.Val))
	}
	return &Mem{Kind: MIte, W: a.W, Cond: c, Prev: a, Src: b}
}
