package main

// Property table: which harness groups serve which property, and with what engine configuration.

const repoDir = "/repo"
const csprotoPath = "github.com/CrowdStrike/csproto"

var pureMerge = []string{
	"math/bits.Len64", "math/bits.Len32", "math/bits.Len",
	csprotoPath + ".SizeOfVarint", csprotoPath + ".SizeOfTagKey", csprotoPath + ".SizeOfZigZag",
	"google.golang.org/protobuf/encoding/protowire.SizeVarint",
}

var runtimeStubPkgs = []string{
	"google.golang.org/protobuf/proto", "github.com/gogo/protobuf/proto", "github.com/golang/protobuf/proto",
	"google.golang.org/protobuf/encoding/prototext", "google.golang.org/protobuf/encoding/protojson",
	"github.com/gogo/protobuf/jsonpb", "github.com/golang/protobuf/jsonpb",
}

// Group is one package load: module dir, package, the harness sources overlaid into it.
type Group struct {
	Name           string   // short name, also the sub-directory of /verif/harness holding the harness files
	Dir            string   // module directory handed to go/packages
	Pkg            string   // package pattern relative to Dir
	PkgDir         string   // absolute directory of the package (virtual overlay files are placed here)
	PkgName        string   // Go package name (for the rt templates)
	Targets        []string // extra package paths executed as code under test
	Merge          []string
	StubPkgs       []string
	SkipTargetInit bool
	ResetStub      bool
	Unwind         int
	Corpus         bool // the package is generated at check time by the corpus pipeline
	ExtraRT        string // additional runtime template pair (sym_X / native_X)
	FmParams       string // protoc-gen-fastmarshal parameters for corpus groups
}

type PropSpec struct {
	ID            string
	Level         string // evidence level
	Groups        []string
	QuickTimeout  int // seconds per harness
	ThorTimeout   int
	Explanation   string // for level "other"
	Bounds        map[string]string
	Outside       []string
	TrustedBase   []string
}

var groups = map[string]*Group{
	"csproto": {Name: "csproto", Dir: repoDir, Pkg: ".", PkgDir: repoDir, PkgName: "csproto",
		Merge: pureMerge, StubPkgs: runtimeStubPkgs, Unwind: 200},
	"lazyproto": {Name: "lazyproto", Dir: repoDir, Pkg: "./lazyproto", PkgDir: repoDir + "/lazyproto", PkgName: "lazyproto",
		Targets: []string{csprotoPath}, Merge: pureMerge, StubPkgs: runtimeStubPkgs, Unwind: 200},
}

func init() {
	for _, pkg := range []string{"p3", "p2"} {
		groups[pkg] = &Group{Name: pkg, Corpus: true, Pkg: "./" + pkg, PkgName: pkg, Targets: []string{csprotoPath},
			Merge: pureMerge, StubPkgs: runtimeStubPkgs, SkipTargetInit: true, ResetStub: true, Unwind: 300, ExtraRT: "pb",
			FmParams: "paths=source_relative,apiversion=v2"}
	}
}

var props = map[string]*PropSpec{}

func regProp(p *PropSpec) { props[p.ID] = p }

func init() {
	regProp(&PropSpec{ID: "C01", Level: "model_checking", Groups: []string{"csproto"}, QuickTimeout: 600, ThorTimeout: 3000})
	regProp(&PropSpec{ID: "C02", Level: "model_checking", Groups: []string{"csproto"}, QuickTimeout: 600, ThorTimeout: 3000})
	regProp(&PropSpec{ID: "C03", Level: "model_checking", Groups: []string{"csproto"}, QuickTimeout: 600, ThorTimeout: 3000})
	regProp(&PropSpec{ID: "C19", Level: "model_checking", Groups: []string{"csproto"}, QuickTimeout: 600, ThorTimeout: 3000})
	for _, id := range []string{"C04", "C05", "C06", "C07", "C08", "C09", "C10", "C17"} {
		regProp(&PropSpec{ID: id, Level: "model_checking", Groups: []string{"p3", "p2"}, QuickTimeout: 600, ThorTimeout: 3000})
	}
	regProp(&PropSpec{ID: "C13", Level: "model_checking", Groups: []string{"lazyproto"}, QuickTimeout: 600, ThorTimeout: 3000})
	regProp(&PropSpec{ID: "C15", Level: "other", Groups: []string{"lazyproto"}, QuickTimeout: 600, ThorTimeout: 3000,
		Explanation: "thread-modular ownership obligation decided on every feasible single-thread path by symbolic execution + SMT (no schedule is enumerated): after NewDecoder, objects reachable from the Decoder and all package variables are shared; no non-atomic, non-mutex write may target them; pooled results are owned by one goroutine between Get and Put. Isolation of simultaneously live results is checked on the single-thread projection of two goroutines under an adversarial pool model. Ownership violations are replayed as a goroutine workload under the Go race detector.",
		TrustedBase: []string{"sync.Pool contract: an object is handed to at most one getter at a time and Put happens-before the matching Get", "the thread-modular argument: goroutines that share only the Decoder and never write shared objects non-atomically have no data race (Go memory model)", "races inside the Go runtime and the real scheduler are not explored"}})
	regProp(&PropSpec{ID: "C14", Level: "model_checking", Groups: []string{"lazyproto"}, QuickTimeout: 600, ThorTimeout: 3000})
}
