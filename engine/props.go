package main

import "os"

// Property table: which harness groups serve which property, and with what engine configuration.

// repoDir is the repository under test; $VERIF_REPO overrides it (used to evaluate seeded changes on a scratch
// worktree without touching /repo)
var repoDir = func() string {
	if d := os.Getenv("VERIF_REPO"); d != "" {
		return d
	}
	return "/repo"
}()
const csprotoPath = "github.com/CrowdStrike/csproto"

var pureMerge = []string{
	"math/bits.Len64", "math/bits.Len32", "math/bits.Len",
	csprotoPath + ".SizeOfVarint", csprotoPath + ".SizeOfTagKey", csprotoPath + ".SizeOfZigZag",
	"google.golang.org/protobuf/encoding/protowire.SizeVarint",
}

var runtimeStubPkgs = []string{
	"google.golang.org/protobuf/proto", "github.com/gogo/protobuf/proto", "github.com/golang/protobuf/proto",
	"google.golang.org/protobuf/encoding/prototext", "google.golang.org/protobuf/encoding/protojson",
	"github.com/gogo/protobuf/jsonpb", "github.com/golang/protobuf/jsonpb",
	"github.com/gogo/protobuf/types", "google.golang.org/protobuf/internal/impl",
}

// Group is one package load: module dir, package, the harness sources overlaid into it.
type Group struct {
	Name           string   // short name, also the sub-directory of /verif/harness holding the harness files
	Dir            string   // module directory handed to go/packages
	Pkg            string   // package pattern relative to Dir
	PkgDir         string   // absolute directory of the package (virtual overlay files are placed here)
	PkgName        string   // Go package name (for the rt templates)
	Targets        []string // extra package paths executed as code under test
	Merge          []string
	StubPkgs       []string
	SkipTargetInit bool
	ResetStub      bool
	Unwind         int
	Corpus         bool // the package is generated at check time by the corpus pipeline
	HarnessDir     string // sub-directory of /verif/harness with the harness files (default: Name)
	Schema         string // corpus schema name (default: Name)
	Only           string // regexp: only harnesses whose name matches run in this group
	ExtraRT        string // additional runtime template pair (sym_X / native_X)
	FmParams       string // protoc-gen-fastmarshal parameters for corpus groups
}

type PropSpec struct {
	ID            string
	Level         string // evidence level
	Groups        []string
	QuickTimeout  int // seconds per harness
	ThorTimeout   int
	Explanation   string // for level "other"
	Bounds        map[string]string
	Outside       []string
	TrustedBase   []string
	Witnesses     int // path witnesses replayed natively per harness (0: 4 quick / 12 thorough)
}

var groups = map[string]*Group{
	"csproto": {Name: "csproto", Dir: repoDir, Pkg: ".", PkgDir: repoDir, PkgName: "csproto",
		Targets: []string{"github.com/gogo/protobuf/gogoproto"}, Merge: pureMerge, StubPkgs: runtimeStubPkgs, Unwind: 200},
	"lazyproto": {Name: "lazyproto", Dir: repoDir, Pkg: "./lazyproto", PkgDir: repoDir + "/lazyproto", PkgName: "lazyproto",
		Targets: []string{csprotoPath}, Merge: pureMerge, StubPkgs: runtimeStubPkgs, Unwind: 200},
}

func init() {
	for _, pkg := range []string{"p3", "p2"} {
		groups[pkg] = &Group{Name: pkg, Corpus: true, Pkg: "./" + pkg, PkgName: pkg, Targets: []string{csprotoPath, csprotoPath + "/lazyproto"},
			Merge: pureMerge, StubPkgs: runtimeStubPkgs, SkipTargetInit: true, ResetStub: true, Unwind: 300, ExtraRT: "pb",
			FmParams: "paths=source_relative,apiversion=v2"}
		// generator option variants: the per-message-file template and unsafe string decoding. The field snippets are
		// shared with the default variant, so only the harnesses that exercise the per-message scaffolding
		// (all-fields and composite messages) resp. string/bytes decoding run here.
		pm := *groups[pkg]
		pm.Name, pm.Pkg, pm.HarnessDir, pm.Schema = pkg+"pm", "./"+pkg+"pm", pkg, pkg
		pm.FmParams = "paths=source_relative,apiversion=v2,filepermessage=true"
		pm.Only = `_(X?All|Msgs|Node|One|Maps|Mix|Req|Marshal_|Unmarshal_)|^H_C0[67]_[ST](Int32|String|Bool|Sfixed64|Enum)`
		groups[pm.Name] = &pm
		us := *groups[pkg]
		us.Name, us.Pkg, us.HarnessDir, us.Schema = pkg+"u", "./"+pkg+"u", pkg, pkg
		us.FmParams = "paths=source_relative,apiversion=v2,enableunsafedecode=true"
		us.Only = `^H_C06_([ST](String|Bytes)|One|Maps|Mix|Msgs)`
		groups[us.Name] = &us
	}
}

func init() {
	groups["prototest"] = &Group{Name: "prototest", Dir: repoDir, Pkg: "./prototest", PkgDir: repoDir + "/prototest", PkgName: "prototest", Merge: pureMerge, Unwind: 300}
	groups["protodump"] = &Group{Name: "protodump", Dir: repoDir, Pkg: "./cmd/protodump", PkgDir: repoDir + "/cmd/protodump", PkgName: "main",
		Targets: []string{csprotoPath}, Merge: pureMerge, StubPkgs: runtimeStubPkgs, Unwind: 300}
}

var props = map[string]*PropSpec{}

func regProp(p *PropSpec) { props[p.ID] = p }

func init() {
	regProp(&PropSpec{ID: "C01", Level: "model_checking", Groups: []string{"csproto"}, QuickTimeout: 600, ThorTimeout: 3000})
	regProp(&PropSpec{ID: "C02", Level: "model_checking", Groups: []string{"csproto"}, QuickTimeout: 600, ThorTimeout: 3000})
	regProp(&PropSpec{ID: "C03", Level: "model_checking", Groups: []string{"csproto"}, QuickTimeout: 600, ThorTimeout: 3000})
	regProp(&PropSpec{ID: "C11", Level: "other", Groups: []string{"csproto"}, QuickTimeout: 600, ThorTimeout: 3000, Witnesses: 200,
		Explanation: "symbolic execution of csproto's dispatch code (Marshal, Unmarshal, Size, MsgType, deduceMsgType, Clone, Equal, Reset, MarshalText, GrpcCodec) over a family of candidate values whose real method sets realise every tier combination the code distinguishes (symbolic choice, type assertions decided by go/types); the runtimes' own functions are logged contract stubs, tier order is observed through counters in the candidates; every implicit panic (failed type assertion, nil dereference) is an obligation; counterexamples are replayed natively against the real runtimes",
		TrustedBase: []string{"the three protobuf runtimes' own Marshal/Size/Unmarshal/Clone/Equal/Reset/text functions behave as documented (contract stubs)", "gogo.MessageName returns a non-empty name exactly for gogo-registered message types", "sync.Map is safe for concurrent use; classification depends on the dynamic type only, so concurrent first uses store the same value"}})
	regProp(&PropSpec{ID: "C12", Level: "other", Groups: []string{"csproto"}, QuickTimeout: 600, ThorTimeout: 3000, Witnesses: 200,
		Explanation: "symbolic execution of all of extensions.go over message candidates (real v2 extendable message, real gogo extendable message, a gogo message whose extensions declare defaults, legacy v1-style message, non-message pointer, nil) x descriptor candidates (real v2 ExtensionType = golang v1 ExtensionDesc, real *gogo.ExtensionDesc, a gogo descriptor with a declared default that extends another message, other value, nil), symbolic choice; the runtimes' extension APIs are logged contract stubs. Obligations: a matching pair invokes exactly the owning runtime's function, a mismatching pair yields false / an error / the documented panic with NO runtime call (hence no modification), unsupported values never panic (ClearExtension excepted, as documented). On every native replay the coherence laws (Set=>Has,Get; Clear/ClearAll=>!Has and gone from the marshaled bytes; Range visits exactly the set ones - for all 16 subsets of four scalar extensions of a v2 message the visited field set and call count equal the runtime's own Range, and a callback failing at its k-th call ends the iteration there with that error (native differential, not a solver verdict: the runtime's Range is a stub in the symbolic run); declared number) are asserted against the real runtimes on real messages, and GetExtension is compared with the owning runtime's own answer (value, error, error text).",
		TrustedBase: []string{"each runtime's extension store obeys its documented contract (symbolic runs use logged stubs; the real runtimes are exercised only on replay)", "MsgType classification (C11)"}})
	regProp(&PropSpec{ID: "C18", Level: "other", Groups: []string{"csproto"}, QuickTimeout: 600, ThorTimeout: 3000, Witnesses: 200,
		Explanation: "symbolic execution of all of json.go over message candidates (nil interface, typed nil pointer, real v2 message, real gogo message, legacy v1-style message, a type with its own MarshalJSON/UnmarshalJSON, a typed nil pointer of such a type, a non-message pointer) with the five options as symbolic values (each possibly left at its default, and, under a further symbolic Boolean, each preceded in the list by its opposite value so that 'the later occurrence counts' and 'JSONIndent(\"\") disables indentation' are part of the obligation); the JSON codecs of the three runtimes are logged contract stubs whose receiver structs are read back: the codec is invoked with exactly the options given for all 2^5 valuations at once, nil => (nil,nil) resp. an error, a json.Marshaler/Unmarshaler is called directly, codec errors are propagated, unsupported values are errors. On every native replay the real codecs run: output is valid JSON, round-trips through the adapter and the owning runtime's decoder to an equal message, and every option has its visible effect.",
		TrustedBase: []string{"protojson / jsonpb (golang and gogo) implement their documented options (symbolic runs use logged stubs; the real codecs are exercised on replay)"}})
	regProp(&PropSpec{ID: "C20", Level: "model_checking", Groups: []string{"prototest", "protodump"}, QuickTimeout: 900, ThorTimeout: 3000})
	regProp(&PropSpec{ID: "C19", Level: "model_checking", Groups: []string{"csproto"}, QuickTimeout: 600, ThorTimeout: 3000})
	for _, id := range []string{"C04", "C05", "C06", "C07", "C08", "C09", "C10", "C17"} {
		regProp(&PropSpec{ID: id, Level: "model_checking", Groups: []string{"p3", "p2"}, QuickTimeout: 600, ThorTimeout: 3000})
	}
	props["C10"].Groups = []string{"p3", "p2", "csproto"}
	for _, id := range []string{"C04", "C05", "C07", "C09", "C17"} {
		props[id].Groups = []string{"p3", "p2", "p3pm", "p2pm"}
	}
	props["C06"].Groups = []string{"p3", "p2", "p3pm", "p2pm", "p3u", "p2u"}
	props["C08"].Witnesses = 6000 // every accepting path's witness is decoded by the reference runtime as well (differential clause)
	regProp(&PropSpec{ID: "C13", Level: "model_checking", Groups: []string{"lazyproto"}, QuickTimeout: 600, ThorTimeout: 3000})
	regProp(&PropSpec{ID: "C15", Level: "other", Groups: []string{"lazyproto"}, QuickTimeout: 600, ThorTimeout: 3000,
		Explanation: "thread-modular ownership obligation decided on every feasible single-thread path by symbolic execution + SMT (no schedule is enumerated): after NewDecoder, objects reachable from the Decoder and all package variables are shared; no non-atomic, non-mutex write may target them; pooled results are owned by one goroutine between Get and Put. Isolation of simultaneously live results is checked on the single-thread projection of two goroutines under an adversarial pool model. Ownership violations are replayed as a goroutine workload under the Go race detector.",
		TrustedBase: []string{"sync.Pool contract: an object is handed to at most one getter at a time and Put happens-before the matching Get", "the thread-modular argument: goroutines that share only the Decoder and never write shared objects non-atomically have no data race (Go memory model)", "races inside the Go runtime and the real scheduler are not explored"}})
	regProp(&PropSpec{ID: "C14", Level: "model_checking", Groups: []string{"lazyproto"}, QuickTimeout: 600, ThorTimeout: 3000})
}
