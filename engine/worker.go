package main

import (
	"bufio"
	"encoding/json"
	"fmt"
	"go/token"
	"go/types"
	"os"
	"runtime/debug"
	"sort"
	"strings"
	"time"

	"golang.org/x/tools/go/packages"
	"golang.org/x/tools/go/ssa"
	"golang.org/x/tools/go/ssa/ssautil"
)

// JobSpec describes one package load shared by a set of harnesses.
type JobSpec struct {
	Property        string            `json:"property"`
	Dir             string            `json:"dir"`
	Pkg             string            `json:"pkg"`
	Overlay         map[string]string `json:"overlay"` // virtual path -> real path
	Targets         []string          `json:"targets"`
	Merge           []string          `json:"merge"`
	StubPkgs        []string          `json:"stub_pkgs"`
	SkipTargetInit  bool              `json:"skip_target_init"`
	ResetStub       bool              `json:"reset_stub"`
	Unwind          int               `json:"unwind"`
	Tier            int               `json:"tier"`
	Solver          string            `json:"solver"`
	SolverTimeoutMs int               `json:"solver_timeout_ms"`
	Seed            int               `json:"seed"`
	Witnesses       int               `json:"witnesses"`
	Trace           bool              `json:"trace"`
	SmtLog          string            `json:"smtlog"`
}

type ViolationJSON struct {
	ID     string            `json:"id"` // obligation identity within the harness: kind:label@where
	Kind   string            `json:"kind"`
	Label  string            `json:"label"`
	Where  string            `json:"where"`
	Site   string            `json:"site"`
	Inputs map[string]uint64 `json:"inputs"`
	Log    []string          `json:"log,omitempty"`
}

type Witness struct {
	Inputs  map[string]uint64 `json:"inputs"`
	Observe map[string]uint64 `json:"observe,omitempty"`
	Reached []string          `json:"reached,omitempty"`
}

type HarnessResult struct {
	Name        string          `json:"name"`
	Paths       int             `json:"paths"`
	Steps       int             `json:"steps"`
	Forks       int             `json:"forks"`
	Unwound     int             `json:"unwound"`
	UnwoundAt   []string        `json:"unwound_at,omitempty"`
	Obligations int             `json:"obligations"`
	Folded      int             `json:"folded"`
	ObQueries   int             `json:"ob_queries"`
	Queries     int             `json:"queries"`
	Sat         int             `json:"sat"`
	Unsat       int             `json:"unsat"`
	Unknown     int             `json:"unknown"`
	CoreHits    int             `json:"core_hits"`
	PoolHits    int             `json:"pool_hits"`
	Merged      int             `json:"merged"`
	SolverSec   float64         `json:"solver_s"`
	WallSec     float64         `json:"wall_s"`
	Reached     map[string]int  `json:"reached"`
	Violations  []ViolationJSON `json:"violations"`
	Unknowns    []ViolationJSON `json:"unknowns,omitempty"`
	Error       string          `json:"error,omitempty"`
	Witnesses   []Witness       `json:"witnesses,omitempty"`
	Funcs       map[string]int  `json:"funcs"`
	Assumes     []string        `json:"assumes,omitempty"`
	Stubs       []string        `json:"stubs,omitempty"`
	PathLogs    map[string]int  `json:"path_logs,omitempty"`
}

func cmdWorker(specPath string) int {
	b, err := os.ReadFile(specPath)
	if err != nil {
		fmt.Fprintln(os.Stderr, err)
		return 2
	}
	var spec JobSpec
	if err := json.Unmarshal(b, &spec); err != nil {
		fmt.Fprintln(os.Stderr, err)
		return 2
	}
	w, err := loadWorker(&spec)
	if err != nil {
		fmt.Println("LOADERROR " + strings.ReplaceAll(err.Error(), "\n", " | "))
		return 2
	}
	fmt.Println("READY")
	sc := bufio.NewScanner(os.Stdin)
	for sc.Scan() {
		name := strings.TrimSpace(sc.Text())
		if name == "" {
			continue
		}
		res := w.run(name)
		out, _ := json.Marshal(res)
		fmt.Println("RESULT " + string(out))
	}
	return 0
}

type worker struct {
	spec   *JobSpec
	prog   *ssa.Program
	spkgs  []*ssa.Package
	target *ssa.Package
}

func loadWorker(spec *JobSpec) (*worker, error) {
	ov := map[string][]byte{}
	for virt, real := range spec.Overlay {
		b, err := os.ReadFile(real)
		if err != nil {
			return nil, err
		}
		ov[virt] = b
	}
	cfg := &packages.Config{Mode: packages.LoadAllSyntax, Dir: spec.Dir, Overlay: ov, BuildFlags: []string{"-tags=verif"},
		Env: append(os.Environ(), "GOFLAGS=-mod=mod", "GOPROXY=off", "GOSUMDB=off", "GOTOOLCHAIN=local")}
	pkgs, err := packages.Load(cfg, spec.Pkg)
	if err != nil {
		return nil, err
	}
	var errs []string
	packages.Visit(pkgs, nil, func(p *packages.Package) {
		for _, e := range p.Errors {
			errs = append(errs, e.Error())
		}
	})
	if len(errs) > 0 {
		return nil, fmt.Errorf("package errors: %s", strings.Join(errs, "; "))
	}
	if len(pkgs) != 1 {
		return nil, fmt.Errorf("pattern %q matched %d packages", spec.Pkg, len(pkgs))
	}
	prog, spkgs := ssautil.AllPackages(pkgs, ssa.InstantiateGenerics)
	prog.Build()
	return &worker{spec: spec, prog: prog, spkgs: spkgs, target: prog.Package(pkgs[0].Types)}, nil
}

func (w *worker) run(name string) (res *HarnessResult) {
	spec := w.spec
	res = &HarnessResult{Name: name, Reached: map[string]int{}, Funcs: map[string]int{}}
	t0 := time.Now()
	fn := w.target.Func(name)
	if fn == nil {
		res.Error = "no such harness function"
		return
	}
	TS = NewTermStore()
	args := []string{"-in"}
	if spec.SolverTimeoutMs > 0 {
		args = append(args, fmt.Sprintf("-t:%d", spec.SolverTimeoutMs))
	}
	solverBin := spec.Solver
	if solverBin == "" {
		solverBin = "z3-new"
	}
	solver, err := NewSolver(solverBin, args...)
	if err != nil {
		res.Error = "solver: " + err.Error()
		return
	}
	solver.Cores = true
	solver.Seed = spec.Seed
	if spec.SmtLog != "" {
		lf, _ := os.Create(spec.SmtLog + "." + name + ".smt2")
		solver.Log = lf
		defer lf.Close()
	}
	defer solver.Close()
	errNamed := types.NewNamed(types.NewTypeName(token.NoPos, nil, "verifError", nil), types.NewStruct(nil, nil), nil)
	e := &Engine{prog: w.prog, solver: solver, targets: map[string]bool{w.target.Pkg.Path(): true},
		constStrs: map[string]int{}, globalObjs: map[int]*Obj{}, seenViol: map[string]bool{}, Reached: map[string]int{},
		MaxUnwind: spec.Unwind, errType: errNamed, Trace: spec.Trace, cores: map[int][][]int{}, mergeFns: map[string]bool{},
		funcs: res.Funcs, Tier: spec.Tier, wantWitnesses: spec.Witnesses, harnessName: name,
		stubsUsed: map[string]bool{}, assumeTexts: map[string]bool{}, overlay: spec.Overlay}
	if e.MaxUnwind == 0 {
		e.MaxUnwind = 64
	}
	for _, t := range spec.Targets {
		e.targets[t] = true
	}
	e.resetStub = spec.ResetStub
	e.pathLogs = map[string]int{}
	e.reflectTok = types.NewNamed(types.NewTypeName(token.NoPos, nil, "reflectType", nil), types.NewStruct(nil, nil), nil)
	e.stubPkgs = map[string]bool{}
	for _, p := range spec.StubPkgs {
		e.stubPkgs[p] = true
	}
	for _, n := range spec.Merge {
		e.mergeFns[n] = true
	}
	defer func() {
		if r := recover(); r != nil {
			res.Error = fmt.Sprintf("engine panic: %v", r)
			if os.Getenv("VSYM_STACK") != "" {
				res.Error += "\n" + string(debug.Stack())
			}
		}
		w.fill(res, e, solver, t0)
	}()
	initFn := w.target.Func("init")
	e.Run(fn, func(st *State) {
		// package initialisers of the other packages under test (dependencies of the harness package), in the
		// order listed; an initialiser reached twice is stopped by its init$guard
		for _, t := range spec.Targets {
			sp := w.prog.ImportedPackage(t)
			if sp != nil && sp != w.target {
				if f := sp.Func("init"); f != nil {
					e.pushFrame(st, f, nil, nil, nil)
					e.runPathInit(st)
				}
			}
		}
		if !spec.SkipTargetInit && initFn != nil {
			e.pushFrame(st, initFn, nil, nil, nil)
			e.runPathInit(st)
		}
		st.log = nil // calls made by package initialisers are not part of the harness' call log
	})
	return
}

func (w *worker) fill(res *HarnessResult, e *Engine, s *Solver, t0 time.Time) {
	res.Paths, res.Steps, res.Forks, res.Unwound = e.Paths, e.Steps, e.Forks, e.Unwound
	res.UnwoundAt = e.UnwoundAt
	res.Obligations, res.ObQueries = e.Discharged, e.ObQueries
	res.Folded = e.Folded
	res.Queries, res.Sat, res.Unsat, res.Unknown = s.Queries, s.Sat, s.Unsat, s.Unknown
	res.CoreHits, res.PoolHits, res.Merged = e.CoreHits, e.PoolHits, e.Merged
	res.SolverSec = s.Time.Seconds()
	res.WallSec = time.Since(t0).Seconds()
	res.Reached = e.Reached
	for _, v := range e.Violations {
		vj := ViolationJSON{Kind: v.Kind, Label: v.Label, Where: v.Where, Site: v.Site, Inputs: v.Model, Log: v.Log}
		vj.ID = v.Kind + ":" + v.Label + "@" + v.Where
		if strings.HasPrefix(v.Kind, "unknown:") {
			res.Unknowns = append(res.Unknowns, vj)
		} else {
			res.Violations = append(res.Violations, vj)
		}
	}
	res.Witnesses = e.witnesses
	for k := range e.stubsUsed {
		res.Stubs = append(res.Stubs, k)
	}
	sort.Strings(res.Stubs)
	for k := range e.assumeTexts {
		res.Assumes = append(res.Assumes, k)
	}
	sort.Strings(res.Assumes)
	if len(e.pathLogs) > 0 && len(e.pathLogs) <= 64 {
		nonEmpty := false
		for k := range e.pathLogs {
			if k != "" {
				nonEmpty = true
			}
		}
		if nonEmpty {
			res.PathLogs = e.pathLogs
		}
	}
	res.Unknown += e.UnknownBranches
}

// runPathInit runs the init frame to completion (must be fork-free).
func (e *Engine) runPathInit(st *State) bool {
	for len(st.frames) > 0 {
		f := st.frames[len(st.frames)-1]
		in := f.block.Instrs[f.ip]
		f.ip++
		if fk := e.step(st, f, in); fk != nil {
			panic("fork during package init")
		}
	}
	return true
}
